"""C12 - constraints on the atoms are respected.

Monitors: the trial tracer compares, at every trial boundary, the positions of the atoms
currently fixed by a FixAtoms constraint with their initial positions (bitwise) and the
centre of mass with its initial value under FixCom (<= 1e-9 A), across displacement moves
with every operation, molecular rotation, + / * composites, Hamiltonian moves (time steps
0.5-5 fs, 1-50 steps), cell-free grand-canonical exchange next to a fixed framework, and
force-bias / adaptive force-bias steps (delta 0.01-0.3, T 10-5000 K), under accept-all,
reject-all and mixed schedules.  A contract on the real `FixRot.adjust_momenta` checks
zero total angular momentum and unchanged linear momentum on random non-collinear
geometries, masses and momenta.
A third of the force-bias simulations get displacement masses of their own through
update_masses() (uniform, per atom, per coordinate); in another sixth the atoms' masses
change after construction.
Fixed atoms are also given by negative indices and by mask, constraints are also put on after a few free steps, and
the FixRot contract includes nearly linear geometries (tolerances scaled by the inertia tensor's condition number).
Each FixRot object is used again up to three times: after the masses changed at the same geometry, after the atoms
moved, on a copy of the atoms, and shared with a second Atoms object.
Constant-pressure / constant-stress simulations are included: a trial that leaves the box changed carries the
constrained atoms along or leaves them in place; every other trial (rejected cell moves too) leaves them where they were.
"""
from __future__ import annotations

import traceback

import numpy as np

from qv import workloads
from qv.lib import Rec, derive_seed, rng_for, trace, vstr
from qv.props.c05 import classify_exception, table_shape

LEVEL = "exploration"
RULE = (
    "one evaluation = one trial / force-bias step of a simulation with FixAtoms or FixCom (or one FixRot.adjust_momenta call); distinct by (driver, table shape, constraint, verdict) "
    "resp. (natoms, mass spread decade); non-trivial = trials in which something moved while a constraint was active"
)
ASSUMPTIONS = [
    "constraint application is left at its default (enabled) in every move and integrator",
    "fixed atoms: bitwise equality with the initial positions; FixCom: centre-of-mass drift <= 1e-9 A times max(1, largest coordinate) (trajectories whose coordinates exceed 1e6 A - accept-all schedules heating a Hamiltonian run - are not judged); FixRot: |L| <= (1e-9 + 1e-14 x condition number) * sum|r||p| and |dP| <= (1e-12 + 1e-14 x condition number) * sum|p|",
    "FixRot geometries have inertia-tensor condition number <= 1e6 (nearly linear ones included) (non-degenerate, as the statement requires)",
    "FixAtoms and FixCom are never combined on one Atoms object: ASE applies constraints one after the other, so FixCom's rigid shift moves the atoms FixAtoms has just restored (an ASE semantics, observed, not a quansino defect)",
]
REQUIRED = {"simulations_constrained_after_free_steps": 10, "forcebias_sims_with_custom_displacement_masses": 10, "trials_fixatoms": 800, "trials_fixcom": 500, "forcebias_steps": 300, "hamiltonian_trials": 150, "trials_in_constant_pressure_simulations": 1000, "fixrot_calls": 2000, "fixrot_constraint_used_again": 1000, "fixrot_constraint_used_again:masses": 100, "fixrot_constraint_used_again:copy-then-masses": 100, "fixrot_constraint_used_again:shared-constraint": 100, "moved_trials": 1000, "exchange_trials_with_fixed_framework": 100}
SHARD_TIMEOUT = {"quick": 900, "thorough": 3000}


def plan(tier, seed):
    big = tier != "quick"
    specs = []
    fam = ["canonical", "hamiltonian", "canonical", "grand", "hamiltonian", "canonical"]
    for j in range(12 if not big else 36):
        specs.append({"name": f"{fam[j % 6]}{j}", "mode": "mc", "family": fam[j % 6], "j": j, "seed": seed, "sims": 20 if not big else 40, "steps": 30 if not big else 100})
    # displacement moves next to cell moves (constant pressure / stress): rejected and failed cell moves, and every
    # displacement trial, leave the constrained atoms where they were
    for j in range(4 if not big else 12):
        f_ = ["isobaric", "isotension"][j % 2]
        specs.append({"name": f"{f_}{j}", "mode": "mc", "family": f_, "j": 100 + j, "seed": seed, "sims": 20 if not big else 40, "steps": 30 if not big else 100})
    for j in range(3 if not big else 8):
        specs.append({"name": f"forcebias{j}", "mode": "fb", "j": j, "seed": seed, "sims": 12 if not big else 60, "steps": 20 if not big else 100})
    specs.append({"name": "fixrot", "mode": "fixrot", "j": 0, "seed": seed, "n": 4000 if not big else 60000})
    return specs


def fixed_indices(atoms):
    from ase.constraints import FixAtoms

    idx = []
    for c in atoms.constraints:
        if isinstance(c, FixAtoms):
            idx.extend(int(i) % len(atoms) for i in c.index)  # negative indices count from the end, as ASE resolves them
    return sorted(set(idx))


def has_fixcom(atoms):
    return any(type(c).__name__ == "FixCom" for c in atoms.constraints)


def run_mc(spec, rec):
    from qv import sims

    rng = rng_for("C12", spec["seed"], spec["j"])
    for i in range(spec["sims"]):
        s = workloads.gen(rng, spec["family"], styles=["plain"], p_scripted=0.7, labelmods=False)
        if spec["family"] == "grand":
            a = s["atoms"]
            if a["kind"] == "molecules":
                a["framework"] = max(1, a.get("framework", 0))
                a["constraints"] = ["FixAtoms:framework"]
                a["fw_last"] = bool(rng.random() < 0.5)
            else:
                a["n"] = max(3, a.get("n", 3))
                a["spectators_last"] = 1
                a["constraints"] = ["FixAtoms:framework"]
            s["table"] = [e for e in s["table"] if "+" not in table_shape({"table": [e]}) or "E" not in table_shape({"table": [e]})] or s["table"][:1]
        else:
            s["atoms"]["constraints"] = [["FixAtoms:first1"], ["FixCom"], ["FixAtoms:last2"], ["FixCom"], ["FixAtoms:neglast2"], ["FixAtoms:masklast1"]][int(rng.integers(6))]
            if s["atoms"].get("kind") != "molecules":
                s["atoms"]["n"] = max(3, s["atoms"].get("n", 3))
        shape = table_shape(s)
        # in a fifth of the simulations the atoms are free at first and the constraint is put on after a few steps (a
        # substrate frozen after equilibration): whatever the moves and integrators remember from before, it holds from then on
        late = spec["family"] != "grand" and bool(rng.random() < 0.2)
        late_cons = s["atoms"]["constraints"]
        if late:
            s["atoms"]["constraints"] = []
        cons = ",".join(late_cons if late else s["atoms"]["constraints"]) + (" (set after 3 free steps)" if late else "")
        wit0 = {"driver": s["driver"], "table": shape, "constraints": cons, "seed": s["seed"]}
        try:
            mc, info = sims.build(s)
            if late:
                from ase.constraints import FixAtoms, FixCom

                mc.run(3)
                n_ = len(mc.atoms)
                c_ = late_cons[0]
                mc.atoms.set_constraint(FixCom() if c_ == "FixCom" else FixAtoms(indices=[0] if c_.endswith("first1") else ([-2, -1] if "neg" in c_ else [n_ - 2, n_ - 1])))
                rec.count("simulations_constrained_after_free_steps")
        except Exception as ex:  # noqa: BLE001
            rec.viol(f"C12/build-raised/{classify_exception(ex)}", f"building raised {ex}"[:300], wit0)
            continue
        atoms = mc.atoms
        fix0 = atoms.positions[fixed_indices(atoms)].copy()
        com0 = atoms.get_center_of_mass() if has_fixcom(atoms) else None
        ref = {"fix": fix0, "com": com0}

        def snap(m):
            return {"pos": m.atoms.positions.copy(), "n": len(m.atoms), "cell": np.array(m.atoms.cell.array, copy=True)}

        def on_trial(t):
            rec.evaluations += 1
            a = mc.atoms
            idx = fixed_indices(a)
            v = vstr(t.verdict)
            fix0, com0 = ref["fix"], ref["com"]
            if not np.array_equal(t.before["cell"], t.after["cell"]):
                # constant-pressure / constant-stress simulations: a trial that leaves the box changed (an accepted cell
                # move) carries the constrained atoms along with the box or leaves them where they are - either their
                # fractional or their Cartesian coordinates are what they were; the reference moves on from there.  Every
                # other trial (displacement moves, rejected and failed cell moves) is judged as everywhere else.
                rec.count("trials_that_changed_the_box_under_a_constraint")
                i0, i1 = np.linalg.inv(t.before["cell"]), np.linalg.inv(t.after["cell"])
                wit_ = {**wit0, "step": t.step, "trial": t.k, "move": t.name, "verdict": v}
                if len(fix0):
                    now = a.positions[idx]
                    if not (np.array_equal(now, fix0) or np.abs(now @ i1 - fix0 @ i0).max() <= 1e-9):
                        rec.viol(f"C12/fixed-atom-moved/box-change/{v}", "atoms fixed by FixAtoms have neither their Cartesian nor their fractional coordinates after a trial that changed the box", wit_)
                    ref["fix"] = now.copy()
                if com0 is not None:
                    c1 = a.get_center_of_mass()
                    if not (np.abs(c1 - com0).max() <= 1e-9 * max(1.0, float(np.abs(a.positions).max(initial=1.0))) or np.abs(c1 @ i1 - com0 @ i0).max() <= 1e-9):
                        rec.viol(f"C12/centre-of-mass-drift/box-change/{v}", "the centre of mass kept neither its Cartesian nor its fractional coordinates after a trial that changed the box", wit_)
                    ref["com"] = c1
                return
            moved = t.before["n"] != t.after["n"] or bool(np.abs(t.before["pos"] - t.after["pos"]).max(initial=0.0) > 0) or t.verdict is False
            if spec["family"] in ("isobaric", "isotension"):
                rec.count("trials_in_constant_pressure_simulations")
            if moved:
                rec.count("moved_trials")
                rec.case(s["driver"], shape, cons, v)
            wit = {**wit0, "step": t.step, "trial": t.k, "move": t.name, "verdict": v}
            if "H" in shape:
                rec.count("hamiltonian_trials")
            if len(fix0):
                rec.count("trials_fixatoms")
                if s["driver"] == "GrandCanonical":
                    rec.count("exchange_trials_with_fixed_framework")
                now = a.positions[idx]
                if now.shape != fix0.shape or not np.array_equal(now, fix0):
                    d = float(np.abs(now - fix0).max()) if now.shape == fix0.shape else float("nan")
                    mk = "exchange" if "E" in shape and t.name and "E" in table_shape({"table": [e for e in s["table"] if e["name"] == t.name]}) else ("hamiltonian" if "H" in shape else "displacement")
                    rec.viol(f"C12/fixed-atom-moved/{mk}/{v}", f"atoms fixed by FixAtoms moved by {d:.3g} A during a {v} trial of '{t.name}'", wit)
            if com0 is not None:
                rec.count("trials_fixcom")
                drift = float(np.abs(a.get_center_of_mass() - com0).max())
                scale = float(np.abs(a.positions).max(initial=1.0))
                if not np.isfinite(scale) or scale > 1e6:
                    rec.count("trajectory_exploded_not_judged")  # accept-all schedules can heat a Hamiltonian run without bound
                elif drift > 1e-9 * max(1.0, scale):
                    mk = "hamiltonian" if "H" in shape else "displacement"
                    rec.viol(f"C12/centre-of-mass-drift/{mk}/{v}", f"centre of mass drifted by {drift:.3g} A under FixCom", wit)
            rec.sample(wit, cap=2)

        try:
            trace(mc, spec["steps"], snap=snap, on_trial=on_trial)
        except Exception as ex:  # noqa: BLE001
            rec.viol(f"C12/run-raised/{classify_exception(ex)}", f"simulation raised {type(ex).__name__}: {ex}"[:300], {**wit0, "traceback": traceback.format_exc()[-500:]})


def run_fb(spec, rec):
    from qv import sims

    rng = rng_for("C12fb", spec["seed"], spec["j"])
    for i in range(spec["sims"]):
        adaptive = bool(rng.random() < 0.4)
        cons = [["FixAtoms:first1"], ["FixCom"], ["FixCom"], ["FixAtoms:first2"]][int(rng.integers(4))]
        s = {
            "driver": "AdaptiveForceBias" if adaptive else "ForceBias",
            "seed": derive_seed("c12fb", spec["seed"], spec["j"], i),
            "T": float(10 ** rng.uniform(1, 3.7)),
            "delta": float(10 ** rng.uniform(-2, -0.5)),
            "min_delta": 0.005,
            "atoms": {"kind": "mixed", "n": int(rng.integers(3, 8)), "edge": 9.0, "pbc": False, "seed": int(rng.integers(10**6)), "constraints": cons, "extras": ["masses"] if rng.random() < 0.5 else []},
            "calc": {"kind": "committee"} if adaptive else {"kind": "harmonic", "k": float(10 ** rng.uniform(-1, 1))},
        }
        wit0 = {"driver": s["driver"], "constraints": ",".join(cons), "delta": s["delta"], "T": s["T"], "seed": s["seed"]}
        try:
            mc, _ = sims.build(s)
            atoms = mc.atoms
            idx = fixed_indices(atoms)
            fix0 = atoms.positions[idx].copy()
            com0 = atoms.get_center_of_mass() if has_fixcom(atoms) else None
            # displacement masses other than the atoms' own, through the public update_masses() (uniform, per atom or
            # per coordinate), in a third of the simulations; in another sixth the atoms' masses change after
            # construction without update_masses() being called again
            mm = rng.random()
            if mm < 0.34:
                n = len(atoms)
                which = int(rng.integers(3))
                custom = [np.full(n, float(rng.uniform(1, 100))), rng.uniform(1, 200, n), rng.uniform(1, 200, (n, 3))][which]
                mc.update_masses(custom)
                wit0["displacement_masses"] = ["uniform", "per-atom", "per-coordinate"][which]
                rec.count("forcebias_sims_with_custom_displacement_masses")
            elif mm < 0.5:
                atoms.set_masses(rng.uniform(1, 200, len(atoms)))
                if com0 is not None:
                    com0 = atoms.get_center_of_mass()
                wit0["displacement_masses"] = "atoms' masses changed after construction"
                rec.count("forcebias_sims_with_custom_displacement_masses")
            for k, _ in enumerate(mc.irun(spec["steps"])):
                rec.evaluations += 1
                rec.count("forcebias_steps")
                rec.count("moved_trials")
                rec.case(s["driver"], ",".join(cons))
                if len(idx):
                    rec.count("trials_fixatoms")
                    if not np.array_equal(atoms.positions[idx], fix0):
                        rec.viol("C12/fixed-atom-moved/force-bias", f"atoms fixed by FixAtoms moved by {np.abs(atoms.positions[idx] - fix0).max():.3g} A in a force-bias step", {**wit0, "step": k})
                        break
                if com0 is not None:
                    rec.count("trials_fixcom")
                    drift = float(np.abs(atoms.get_center_of_mass() - com0).max())
                    if drift > 1e-9:
                        rec.viol("C12/centre-of-mass-drift/force-bias", f"centre of mass drifted by {drift:.3g} A under FixCom after {k + 1} force-bias steps", {**wit0, "step": k})
                        break
            rec.sample(wit0, cap=2)
        except Exception as ex:  # noqa: BLE001
            rec.viol(f"C12/run-raised/{classify_exception(ex)}", f"force-bias simulation raised {type(ex).__name__}: {ex}"[:300], {**wit0, "traceback": traceback.format_exc()[-500:]})


COND: dict = {}


def run_fixrot(spec, rec):
    from ase import Atoms

    from quansino.constraints import FixRot

    rng = rng_for("C12rot", spec["seed"])
    orig = FixRot.__dict__["adjust_momenta"]
    seen = {"n": 0}

    def adjust(self, atoms, momenta):
        p_before = momenta.copy()
        try:
            out = orig(self, atoms, momenta)
        except Exception as ex:  # noqa: BLE001  (finite masses / momenta, non-collinear positions: inside the statement's domain)
            rec.count("fixrot_calls")
            rec.evaluations += 1
            rec.viol(f"C12/FixRot/raised/{type(ex).__name__}", f"the constraint raised {type(ex).__name__}: {ex}"[:300], {"natoms": len(atoms), "masses": atoms.get_masses()[:6]})
            return None
        seen["n"] += 1
        rec.count("fixrot_calls")
        rec.evaluations += 1
        r = atoms.positions - atoms.get_center_of_mass()
        L = np.cross(r, momenta).sum(0)
        scale = float((np.linalg.norm(r, axis=1) * np.linalg.norm(p_before, axis=1)).sum()) + 1e-300
        wit = {"natoms": len(atoms), "masses": atoms.get_masses()[:6], "L_after": L, "scale": scale}
        # rounding in the projection grows with the inertia tensor's condition number (measured on the pinned code:
        # about 2e-16 x condition number); the floor of 1e-9 covers condition numbers up to a few 1e6
        if not np.all(np.isfinite(momenta)) or np.abs(L).max() > (1e-9 + 1e-14 * COND.get("now", 1.0)) * scale:
            rec.viol("C12/FixRot/angular-momentum-left", f"total angular momentum after the constraint is {L} (scale {scale:.3g})", wit)
        dP = momenta.sum(0) - p_before.sum(0)
        if np.abs(dP).max() > (1e-12 + 1e-14 * COND.get("now", 1.0)) * (np.abs(p_before).sum() + 1e-300):
            rec.viol("C12/FixRot/linear-momentum-changed", f"total linear momentum changed by {dP}", wit)
        return out

    FixRot.adjust_momenta = adjust
    done = 0
    while done < spec["n"]:
        n = int(rng.integers(3, 12))
        if rng.random() < 0.3:
            # nearly (but not) collinear: a chain with small lateral offsets (bent linear molecules, rods with a light
            # atom slightly off the axis); the inertia tensor's condition number goes up to 1e6
            d_ = rng.normal(size=3)
            d_ /= np.linalg.norm(d_)
            L_ = float(10 ** rng.uniform(0, 1.3))
            pos = np.outer(np.sort(rng.uniform(-1, 1, n)) * L_, d_) + rng.normal(size=(n, 3)) * float(10 ** rng.uniform(-3.2, -0.5)) * L_ + rng.uniform(-20, 20, 3)
            rec.count("fixrot_nearly_linear_geometries")
        else:
            pos = rng.normal(size=(n, 3)) * float(10 ** rng.uniform(-0.5, 1)) + rng.uniform(-20, 20, 3)
        masses = 10 ** rng.uniform(0, float(rng.choice([0.1, 1.0, 2.3])), n)
        atoms = Atoms("H" * n, positions=pos)
        atoms.set_masses(masses)
        ev = atoms.get_moments_of_inertia()
        if ev.min() <= 0 or ev.max() / ev.min() > 1e6:
            continue
        COND["now"] = float(ev.max() / ev.min())
        atoms.set_constraint(FixRot())
        p = rng.normal(size=(n, 3)) * np.sqrt(masses)[:, None] * float(10 ** rng.uniform(-2, 1))
        if done % 2:
            p += rng.normal(size=3) * masses[:, None]  # net drift
        atoms.set_momenta(p)  # applies the constraint
        rec.case("fixrot", n, int(np.log10(masses.max() / masses.min()) + 0.5))
        done += 1
        # the same constraint object used again: after the masses changed at the same geometry (isotope substitution),
        # after the atoms moved, on a copy of the atoms, and shared with another Atoms object of the same geometry
        for _k in range(int(rng.integers(0, 4))):
            act = str(rng.choice(["masses", "positions", "copy-then-masses", "shared-constraint", "same-again"]))
            target = atoms
            if act == "masses":
                target.set_masses(10 ** rng.uniform(0, float(rng.choice([0.1, 1.0, 2.3])), n))
            elif act == "positions":
                target.positions += rng.normal(size=(n, 3)) * 0.3 * float(np.abs(pos - pos.mean(0)).max())
            elif act == "copy-then-masses":
                target = atoms.copy()
                target.set_masses(10 ** rng.uniform(0, float(rng.choice([0.1, 1.0, 2.3])), n))
            elif act == "shared-constraint":
                target = Atoms("H" * n, positions=atoms.positions.copy())
                target.set_masses(10 ** rng.uniform(0, float(rng.choice([0.1, 1.0, 2.3])), n))
                target.constraints = list(atoms.constraints)  # the very same FixRot object
            ev = target.get_moments_of_inertia()
            if ev.min() <= 0 or ev.max() / ev.min() > 1e6:
                break
            COND["now"] = float(ev.max() / ev.min())
            m2 = target.get_masses()
            target.set_momenta(rng.normal(size=(n, 3)) * np.sqrt(m2)[:, None] * float(10 ** rng.uniform(-2, 1)) + rng.normal(size=3) * m2[:, None])
            rec.count("fixrot_constraint_used_again:" + act)
            rec.count("fixrot_constraint_used_again")
            atoms = target
    rec.sample({"geometries": done, "contract_calls": seen["n"]}, cap=1)


def run(spec):
    from qv import env

    env.import_quansino()
    rec = Rec(spec["name"])
    {"mc": run_mc, "fb": run_fb, "fixrot": run_fixrot}[spec["mode"]](spec, rec)
    return rec.out()
