"""C06 - same seed, same trajectory.

Monitor: per-step digest streams (atoms incl. momenta and every per-atom array, cell,
move history, reference energies, labels, particle count, step counter, and the bytes of
the log, trajectory and restart files written through in-memory file objects) of
(1) a run in this process, (2) a second run in this process with numpy's and Python's
global generators re-seeded differently and consumed at every yield, (3) a run in a fresh
interpreter with another PYTHONHASHSEED.  Equal seed => equal streams; different seeds =>
different streams after 5 steps.  Tripwires installed before quansino is imported count
calls from package frames into numpy's legacy global functions, `default_rng()` /
`PCG64()` / `SeedSequence()` without a seed, and the `random` module.
One Hamiltonian workload uses the shipped refresh's documented `forced` option; seeds
include pairs that collide under a 32-, 63- or 64-bit truncation.
Further twins with the same seed must give the same stream, because they are 'the same configuration' reached
another way: a simulation built with other settings and brought to the workload's by re-assigning the documented
attributes; one whose settings are assigned other values in mid-run and at once put back; and one whose first plain
moves are handed to the driver's constructor instead of add_move (same names, order and settings).
Two workloads send log and trajectory to one stream, whose bytes depend on the order of the observer calls.
"""
from __future__ import annotations

import hashlib
import io
import json
import os
import random as pyrandom
import subprocess
import sys

import numpy as np

from qv.lib import Rec, derive_seed

LEVEL = "exploration"
RULE = (
    "one evaluation = one complete run of (driver, move table, seed) compared step by step with its twin runs; distinct by (driver, table, seed, twin kind); "
    "non-trivial when at least one trial was accepted and one rejected (or, for force bias, positions moved)"
)
ASSUMPTIONS = [
    "the calculators are deterministic functions of the configuration (harness calculators)",
    "PCG64 accepts any non-negative integer seed; seeds tested: 0, 1, 2**32-1, 2**63, 2**64+1 (pairs that collide under a 32-, 63- or 64-bit truncation) and seeds derived from VERIF_SEED",
]
REQUIRED = {"constructor_versus_add_move_twins": 5, "reassigned_twins_compared": 30, "twin_runs_compared": 55, "fresh_process_twins": 6, "seed0_runs": 15, "steps_compared": 1400, "distinct_seed_pairs": 20, "tripwire_armed": 1}
SHARD_TIMEOUT = {"quick": 900, "thorough": 3000}

TRIP: dict = {"calls": []}


def workloads(tier):
    D = lambda op="Ball", **k: {"t": "D", "op": {"t": op, "step": 0.4}, **k}  # noqa: E731
    w = []
    gas = {"kind": "gas", "n": 4, "edge": 7.0, "extras": ["tags", "momenta"], "seed": 3}
    mols = {"kind": "molecules", "nmol": 3, "molsize": 2, "framework": 2, "edge": 9.0, "seed": 4}
    w.append(("canonical-ball", {"driver": "Canonical", "T": 400.0, "cycles": 3, "atoms": gas, "calc": {"kind": "soft"}, "table": [{"name": "d", "move": D(), "min": 1}, {"name": "b", "move": D("Box"), "interval": 2, "probability": 0.3}]}))
    w.append(("canonical-composite", {"driver": "Canonical", "T": 900.0, "cycles": 2, "atoms": mols, "calc": {"kind": "soft"}, "table": [{"name": "rot", "move": {"t": "D", "op": {"t": "Rotation"}}}, {"name": "dd", "move": {"t": "*", "part": D("Box"), "n": 2}, "probability": 2.0, "criteria": "canonical"}, {"name": "mix", "move": {"t": "+", "parts": [D("Sphere"), D("Ball")]}, "interval": 2, "criteria": "canonical"}]}))
    w.append(("canonical-forced4", {"driver": "Canonical", "T": 700.0, "cycles": 6, "atoms": gas, "calc": {"kind": "soft"}, "table": [{"name": "alpha", "move": D(), "min": 1}, {"name": "beta", "move": D("Box"), "min": 1}, {"name": "gamma", "move": D("Sphere"), "min": 2}, {"name": "delta", "move": {"t": "D", "op": {"t": "Translation"}}, "min": 1}, {"name": "eps", "move": D()}]}))
    w.append(("hamiltonian", {"driver": "HamiltonianCanonical", "T": 500.0, "cycles": 1, "atoms": {"kind": "gas", "n": 3, "edge": 6.0, "pbc": False, "seed": 5, "extras": ["masses"]}, "calc": {"kind": "harmonic", "k": 1.5, "q": 0.5}, "table": [{"name": "h", "move": {"t": "H", "dt": 2.0, "steps": 6}}]}))
    w.append(("hamiltonian-forced-refresh", {"driver": "HamiltonianCanonical", "T": 700.0, "cycles": 2, "atoms": {"kind": "gas", "n": 4, "edge": 6.0, "pbc": False, "seed": 9, "extras": ["masses"]}, "calc": {"kind": "harmonic", "k": 1.0, "q": 0.3}, "table": [{"name": "hf", "move": {"t": "H", "dt": 1.5, "steps": 4, "forced": True}}, {"name": "h", "move": {"t": "H", "dt": 2.0, "steps": 3}}]}))
    w.append(("isobaric", {"driver": "Isobaric", "T": 800.0, "P": 0.01, "cycles": 3, "atoms": {**gas, "triclinic": True}, "calc": {"kind": "soft"}, "table": [{"name": "c", "move": {"t": "C", "op": {"t": "Aniso", "mv": 0.05}}, "min": 1}, {"name": "d", "move": D(), "min": 1}]}))
    w.append(("isotension", {"driver": "Isotension", "T": 800.0, "P": 0.01, "S": [[0.01, 0.002, 0], [0.002, 0.0, 0], [0, 0, -0.01]], "cycles": 3, "atoms": gas, "calc": {"kind": "soft"}, "table": [{"name": "c", "move": {"t": "C", "op": {"t": "Shape", "mv": 0.05}, "scale": False}}, {"name": "i", "move": {"t": "C", "op": {"t": "Iso", "mv": 0.05}}}, {"name": "d", "move": D("Box")}]}))
    w.append(("grand-atomic", {"driver": "GrandCanonical", "T": 1500.0, "mu": -0.05, "cycles": 3, "species": 1, "atoms": gas, "calc": {"kind": "soft"}, "table": [{"name": "x", "move": {"t": "E"}, "min": 2}, {"name": "d", "move": D(), "interval": 3}]}))
    w.append(("grand-molecular", {"driver": "GrandCanonical", "T": 2500.0, "mu": -0.02, "cycles": 3, "species": 2, "atoms": mols, "calc": {"kind": "soft"}, "table": [{"name": "x", "move": {"t": "E", "op": {"t": "TranslationRotation"}}}, {"name": "d", "move": {"t": "D", "op": {"t": "TranslationRotation"}}}]}))
    w.append(("forcebias", {"driver": "ForceBias", "T": 300.0, "delta": 0.15, "atoms": {"kind": "mixed", "n": 5, "edge": 8.0, "pbc": False, "seed": 6}, "calc": {"kind": "harmonic", "k": 1.0}}))
    w.append(("adaptive-forcebias", {"driver": "AdaptiveForceBias", "T": 300.0, "delta": 0.2, "atoms": {"kind": "mixed", "n": 5, "edge": 8.0, "pbc": False, "seed": 7}, "calc": {"kind": "committee"}}))
    # one stream for the log and the trajectory (everything a run says in one file): its bytes depend on the order in which
    # the observers are called at each step, which is part of the configuration and the same in every replica
    w.append(("canonical-one-stream", {"driver": "Canonical", "T": 600.0, "cycles": 2, "shared_stream": True, "atoms": gas, "calc": {"kind": "soft"}, "table": [{"name": "d", "move": D()}, {"name": "b", "move": D("Box")}]}))
    w.append(("grand-one-stream", {"driver": "GrandCanonical", "T": 1500.0, "mu": -0.05, "cycles": 2, "species": 1, "shared_stream": True, "atoms": gas, "calc": {"kind": "soft"}, "table": [{"name": "x", "move": {"t": "E"}}, {"name": "d", "move": D()}]}))
    if tier != "quick":
        w.append(("grand-composite", {"driver": "GrandCanonical", "T": 1500.0, "mu": -0.05, "cycles": 2, "species": 1, "atoms": gas, "calc": {"kind": "soft"}, "table": [{"name": "xd", "move": {"t": "+", "parts": [D(), {"t": "E"}]}, "criteria": "random:0.5"}, {"name": "d", "move": D()}]}))
        w.append(("adaptive-energy", {"driver": "AdaptiveForceBias", "T": 600.0, "delta": 0.2, "scheme": "energy", "update": "exp", "notraj": True, "atoms": {"kind": "mixed", "n": 4, "edge": 8.0, "pbc": False, "seed": 8}, "calc": {"kind": "committee", "energies": True}}))
        w.append(("canonical-veto", {"driver": "Canonical", "T": 400.0, "cycles": 3, "atoms": gas, "calc": {"kind": "soft"}, "table": [{"name": "d", "move": D(veto="random:0.5", max_attempts=2)}, {"name": "t", "move": {"t": "D", "op": [{"t": "Ball", "step": 0.2}, {"t": "Box", "step": 0.1}]}}]}))
    return w


def plan(tier, seed):
    from qv import workloads as wl
    from qv.lib import rng_for

    steps = 30 if tier == "quick" else 300
    specs = []
    for name, w in workloads(tier):
        specs.append({"name": name, "w": w, "steps": steps, "seed": seed, "fresh": 1 if tier == "quick" else 3})
    # (no constraints here: ASE 3.26's extended-XYZ writer cannot write atoms carrying a FixCom constraint - observed,
    #  an ASE limitation - and every run of this check writes a trajectory)
    # seeded random tables (every ensemble, + / * composites, minimum counts, intervals, vetoes, scripted criteria)
    rng = rng_for("C06-tables", seed)
    fams = ["canonical", "hamiltonian", "isobaric", "isotension", "grand"]
    for i in range(10 if tier == "quick" else 60):
        fam = fams[i % 5]
        w = wl.gen(rng, fam, styles=["plain"], constraints=False, grand_kinds=["E", "E", "D", "E*2", "D+E", "E+E", "D*2+E", "same"])
        w.pop("seed", None)
        specs.append({"name": f"random-{fam}-{i}", "w": w, "steps": 20 if tier == "quick" else 80, "seed": seed, "fresh": 0, "nseeds": 2})
    return specs


# ----------------------------------------------------------------------------- tripwires
def install_tripwires():
    """Must run before quansino is imported."""
    import numpy.random as npr

    def from_package():
        f = sys._getframe(2)
        depth = 0
        while f is not None and depth < 12:
            fn = f.f_code.co_filename
            if f"{os.sep}quansino{os.sep}" in fn and f"{os.sep}qv{os.sep}" not in fn:
                return f"{fn.split(os.sep + 'quansino' + os.sep)[-1]}:{f.f_lineno}:{f.f_code.co_name}"
            f = f.f_back
            depth += 1
        return None

    def wrap_fn(mod, name, label):
        orig = getattr(mod, name)

        def w(*a, **k):
            site = from_package()
            if site:
                TRIP["calls"].append((label, site))
            return orig(*a, **k)

        setattr(mod, name, w)

    for nm in ("rand", "randn", "random", "random_sample", "uniform", "normal", "choice", "randint", "shuffle", "permutation", "standard_normal", "seed", "exponential"):
        if hasattr(npr, nm):
            wrap_fn(npr, nm, f"numpy.random.{nm}")
    for nm in ("random", "uniform", "gauss", "choice", "randint", "shuffle", "sample", "normalvariate", "seed", "randrange"):
        wrap_fn(pyrandom, nm, f"random.{nm}")
    orig_default = npr.default_rng

    def default_rng(seed=None, *a, **k):
        site = from_package()
        if site and seed is None:
            TRIP["calls"].append(("numpy.random.default_rng()", site))
        return orig_default(seed, *a, **k)

    npr.default_rng = default_rng
    np.random.default_rng = default_rng
    TRIP["armed"] = True


# ----------------------------------------------------------------------------- runs
def detuned(w):
    """A copy of the workload with every re-assignable setting off its value, and the list of re-assignments that bring a
    simulation built from the copy back to the configuration of `w` through documented attributes only."""
    import copy

    w2 = copy.deepcopy(w)
    todo = []
    for key, attr, f in (("T", "temperature", lambda x: x * 1.37 + 11.0), ("P", "pressure", lambda x: x * 0.6 + 0.003), ("mu", "chemical_potential", lambda x: x + 0.21)):
        if key in w and (key != "P" or w["driver"] in ("Isobaric", "Isotension")) and (key != "mu" or w["driver"] == "GrandCanonical"):
            w2[key] = f(w[key])
            todo.append(("sim", attr, w[key]))
    if w["driver"] == "Isotension" and w.get("S") is not None:
        w2["S"] = (np.array(w["S"]) * 0.5).tolist()
        todo.append(("sim", "external_stress", np.array(w["S"], dtype=float)))
    if w["driver"] == "ForceBias":
        w2["delta"] = w.get("delta", 0.1) * 1.5
        todo.append(("sim", "delta", w.get("delta", 0.1)))
    if w["driver"] == "AdaptiveForceBias":
        w2["delta"] = w.get("delta", 0.2) * 1.4
        w2["min_delta"] = w.get("min_delta", 0.02) * 0.5
        todo.append(("sim", "max_delta", w.get("delta", 0.2)))
        todo.append(("sim", "min_delta", w.get("min_delta", 0.02)))
        # the current step length is state, not a setting: it starts at the middle of the range the driver was built with
        todo.append(("sim", "delta", 0.5 * (w.get("min_delta", 0.02) + w.get("delta", 0.2))))
    # a move object registered under two names is one object in a live simulation and two after a rebuild from a
    # dictionary: settings of such moves are left alone (re-tuning one name would mean different things in the two)
    aliased = {e["move"].get("id") for e in w.get("table", []) if e["move"].get("t") == "ref"}
    for e2, e in zip(w2.get("table", []), w.get("table", [])):
        e2["probability"] = e.get("probability", 1.0) * 0.5 + 0.1
        todo.append(("entry", e["name"], "probability", e.get("probability", 1.0)))
        m, m2 = e["move"], e2["move"]
        if m.get("id") in aliased and m.get("id") is not None:
            continue
        if m.get("t") == "D" and isinstance(m.get("op"), dict) and "step" in m["op"]:
            m2["op"]["step"] = m["op"]["step"] * 1.3
            todo.append(("op", e["name"], "step_size", m["op"]["step"]))
        if m.get("t") == "C" and isinstance(m.get("op"), dict) and "mv" in m["op"]:
            m2["op"]["mv"] = m["op"]["mv"] * 1.5
            todo.append(("op", e["name"], "max_value", m["op"]["mv"]))
        if m.get("t") == "E":
            m2["bias"] = min(0.95, m.get("bias", 0.5) * 0.7 + 0.05)
            todo.append(("move", e["name"], "bias_towards_insert", m.get("bias", 0.5)))
        if m.get("t") == "H":
            m2["dt"] = m.get("dt", 1.0) * 1.5
            m2["steps"] = m.get("steps", 5) + 2
            todo.append(("verlet", e["name"], m.get("dt", 1.0), m2["dt"], m.get("steps", 5)))
    return w2, todo


def retune(mc, todo):
    for item in todo:
        if item[0] == "sim":
            setattr(mc, item[1], item[2])
        elif item[0] == "entry":
            setattr(mc.moves[item[1]], item[2], item[3])
        elif item[0] == "op":
            setattr(mc.moves[item[1]].move.operation, item[2], item[3])
        elif item[0] == "move":
            setattr(mc.moves[item[1]].move, item[2], item[3])
        elif item[0] == "verlet":
            integ = mc.moves[item[1]].move.operation
            integ.dt = integ.dt / item[3] * item[2]  # the attribute's unit read off the object itself
            integ.max_steps = item[4]
        elif item[0] == "verlet_raw":
            integ = mc.moves[item[1]].move.operation
            integ.dt, integ.max_steps = item[2], item[3]


def detune_values(mc, todo):
    """Current values of everything `todo` would assign, as a todo list of its own (to put them back later)."""
    back = []
    for item in todo:
        if item[0] == "sim":
            v = getattr(mc, item[1])
            back.append(("sim", item[1], np.array(v, copy=True) if isinstance(v, np.ndarray) else v))
        elif item[0] == "entry":
            back.append(("entry", item[1], item[2], getattr(mc.moves[item[1]], item[2])))
        elif item[0] == "op":
            back.append(("op", item[1], item[2], getattr(mc.moves[item[1]].move.operation, item[2])))
        elif item[0] == "move":
            back.append(("move", item[1], item[2], getattr(mc.moves[item[1]].move, item[2])))
        elif item[0] == "verlet":
            integ = mc.moves[item[1]].move.operation
            back.append(("verlet_raw", item[1], integ.dt, integ.max_steps))
    return back


def run_stream(w, seed, steps, perturb_seed=None, reassign=False):
    """-> list of per-step digests (length steps+1), info dict.  With reassign=True the simulation is built from a
    de-tuned copy of the workload and brought to the workload's configuration by re-assigning documented attributes."""
    from qv import sims

    todo = []
    excursion = None
    if reassign == "excursion":
        # built as the workload says; after a third of the run every setting is assigned another value and at once put
        # back (in the opposite order): the configuration is the same again, nothing may remember the excursion
        w_off, todo_back = detuned(w)
        excursion = (w_off, todo_back)
    elif reassign:
        w, todo = detuned(w)
        if seed % 2:
            todo = todo[::-1]

    log, traj, rst = io.StringIO(), io.StringIO(), io.StringIO()
    if w.get("shared_stream"):
        traj = log
    kw = {"logfile": log, "logging_interval": 1}
    is_mc = w["driver"] not in ("ForceBias", "AdaptiveForceBias")
    if not w.get("notraj"):
        kw["trajectory"] = traj
    if is_mc:
        kw["restart_file"] = rst
    TRIP["calls"].clear()
    mc, info = sims.build({k: v for k, v in {**w, "seed": seed}.items() if k not in ("notraj", "shared_stream")}, **kw)
    retune(mc, todo)
    if perturb_seed is not None:
        np.random.seed(perturb_seed % 2**32)
        pyrandom.seed(perturb_seed)

    def dig():
        h = hashlib.sha256()
        h.update(sims.state_digest(mc).encode())
        for f in (log, traj, rst):
            h.update(hashlib.sha256(f.getvalue().encode()).digest())
        return h.hexdigest()[:20]

    stream = []
    verdicts = {"True": 0, "False": 0, "None": 0}
    pos0 = mc.atoms.get_positions().copy()
    for step in mc.irun(steps):
        if excursion is not None and len(stream) == max(1, steps // 3):
            w_off, todo_back = excursion
            back = detune_values(mc, todo_back)
            mc_off, _ = sims.build({k: v for k, v in {**w_off, "seed": seed}.items() if k not in ("notraj", "shared_stream")})
            away = detune_values(mc_off, todo_back)
            retune(mc, away)
            retune(mc, back[::-1])
        stream.append(dig())
        if is_mc:
            for _ in step:
                if perturb_seed is not None:
                    np.random.random()
                    pyrandom.random()
            for _, v in mc.move_history:
                verdicts[str(None if v is None else bool(v))] += 1
        elif perturb_seed is not None:
            np.random.random(3)
            pyrandom.random()
    stream.append(dig())
    moved = len(mc.atoms) != len(pos0) or bool(np.abs(mc.atoms.get_positions() - pos0).max() > 0)
    return stream, {"verdicts": verdicts, "moved": moved, "trip": list(TRIP["calls"]), "log_bytes": len(log.getvalue()), "traj_bytes": len(traj.getvalue()), "restart_bytes": len(rst.getvalue())}


def first_diff(a, b):
    for i, (x, y) in enumerate(zip(a, b)):
        if x != y:
            return i
    return None if len(a) == len(b) else min(len(a), len(b))


def run(spec):
    install_tripwires()
    from qv import env

    env.import_quansino()
    rec = Rec(spec["name"])
    rec.count("tripwire_armed")
    w, steps = spec["w"], spec["steps"]
    seeds = [0, 1, 2**32 - 1, 2**63, 2**64 + 1, derive_seed("c06", spec["seed"], spec["name"]), np.int64(derive_seed("c06n", spec["seed"], spec["name"]) % 2**62)]  # the last one numpy-typed (replica seeds drawn with numpy)
    if spec.get("nseeds"):
        seeds = [0, derive_seed("c06", spec["seed"], spec["name"])][: spec["nseeds"]]
    at5 = {}
    for si, seed in enumerate(seeds):
        try:
            s1, i1 = run_stream(w, seed, steps)
            s2, i2 = run_stream(w, seed, steps, perturb_seed=derive_seed("p", spec["seed"], seed))
        except Exception as ex:  # noqa: BLE001
            rec.viol(f"C06/raised/{w['driver']}/{type(ex).__name__}", f"seeded run raised {type(ex).__name__}: {ex}", {"workload": spec["name"], "seed": seed})
            continue
        rec.evaluations += 2
        rec.count("twin_runs_compared")
        rec.count("steps_compared", steps)
        if seed == 0:
            rec.count("seed0_runs")
        if si == 1 and not spec.get("nseeds") and w["driver"] in ("Canonical", "Isobaric", "Isotension", "GrandCanonical"):
            # two public ways in: the first plain displacement / cell / exchange moves handed to the driver's constructor
            # (default_displacement_move, default_cell_move, default_exchange_move) versus added with add_move under the
            # same names, in the same order, with the same settings: the same configuration, the same trajectory
            try:
                import copy

                slots = {"D": "default_displacement_move"}
                if w["driver"] in ("Isobaric", "Isotension"):
                    slots["C"] = "default_cell_move"
                if w["driver"] == "GrandCanonical":
                    slots["E"] = "default_exchange_move"
                wv = copy.deepcopy(w)
                first, rest, taken = [], [], set()
                for e in wv.get("table", []):
                    t = e["move"].get("t")
                    if t in slots and t not in taken:
                        taken.add(t)
                        e["name"] = slots[t]
                        first.append(e)
                    else:
                        rest.append(e)
                if first:
                    first.sort(key=lambda e: list(slots.values()).index(e["name"]))
                    wv["table"] = first + rest
                    sa, _ = run_stream(wv, seed, steps)
                    sb, _ = run_stream({**copy.deepcopy(wv), "ctor_defaults": True}, seed, steps)
                    rec.evaluations += 1
                    rec.count("constructor_versus_add_move_twins")
                    dd = first_diff(sa, sb)
                    if dd is not None:
                        rec.viol(f"C06/constructor-moves-versus-add_move-differ/{w['driver']}", f"moves handed to the constructor and the same moves added with add_move under the same names give different trajectories (same seed {seed}), first at step {dd}", {"workload": spec["name"], "driver": w["driver"], "seed": seed, "first_divergent_step": dd})
            except Exception as ex:  # noqa: BLE001
                rec.viol(f"C06/raised/{w['driver']}/{type(ex).__name__}", f"building through the constructor's default-move parameters raised {type(ex).__name__}: {ex}", {"workload": spec["name"], "seed": seed})
        if si in (0, 5) and not spec.get("nseeds"):
            # "the same configuration" reached another way: built with other settings, then every setting re-assigned
            # through the documented attributes (temperature, pressure, stress, chemical potential, step lengths, weights,
            # biases, time step): same seed, same trajectory
            try:
                for how in (True, "excursion"):
                    s4, _ = run_stream(w, seed, steps, reassign=how)
                    rec.evaluations += 1
                    rec.count("reassigned_twins_compared")
                    d4 = first_diff(s1, s4)
                    if d4 is not None:
                        kind = "settings-put-back-after-an-excursion-in-mid-run" if how == "excursion" else "built-with-other-settings-then-re-assigned"
                        rec.viol(f"C06/configuration-reached-by-reassignment-differs/{w['driver']}/{kind}", f"same seed {seed}, same configuration reached another way ({kind.replace('-', ' ')}): diverges from the directly built simulation at step {d4}", {"workload": spec["name"], "driver": w["driver"], "seed": seed, "first_divergent_step": d4, "how": kind})
            except Exception as ex:  # noqa: BLE001
                rec.viol(f"C06/raised/{w['driver']}/{type(ex).__name__}", f"re-assigning the settings raised {type(ex).__name__}: {ex}", {"workload": spec["name"], "seed": seed})
        nontrivial = (i1["verdicts"]["True"] > 0 and i1["verdicts"]["False"] > 0) or (w["driver"].endswith("ForceBias") and i1["moved"])
        if nontrivial:
            rec.case(spec["name"], seed, "global-rng-perturbed")
        d = first_diff(s1, s2)
        wit = {"workload": spec["name"], "driver": w["driver"], "seed": seed, "steps": steps, "verdicts": i1["verdicts"]}
        if d is not None:
            kind = "seed-zero" if seed == 0 else "seed-nonzero"
            rec.viol(f"C06/not-reproducible/{kind}/{w['driver']}", f"two runs with seed {seed} diverge at step {d} (global generators in different states)", {**wit, "first_divergent_step": d})
        for label, site in i1["trip"] + i2["trip"]:
            rec.viol(f"C06/global-generator-used/{label}/{site.split(':')[0]}", f"package code called {label} at {site} during a seeded run", {**wit, "site": site})
        at5[seed] = s1[min(5, len(s1) - 1)]
        # fresh interpreter twin
        if spec["fresh"] and (si in (0, 4)[: spec["fresh"]] or (spec["fresh"] > 2 and si == 2)):
            for hs in (1, 2, 3)[: (3 if "forced" in spec["name"] else 1)]:
                s3 = child_stream(w, seed, steps, hashseed=hs + seed % 997)
                if s3 is None:
                    rec.inconclusive.append("fresh-interpreter twin failed to run")
                    continue
                rec.count("fresh_process_twins")
                rec.evaluations += 1
                if nontrivial:
                    rec.case(spec["name"], seed, "fresh-interpreter", hs)
                d = first_diff(s1, s3)
                if d is not None:
                    kind = "seed-zero" if seed == 0 else "seed-nonzero"
                    rec.viol(f"C06/not-reproducible/{kind}/{w['driver']}", f"a fresh interpreter with seed {seed} diverges at step {d}", {**wit, "first_divergent_step": d, "twin": f"fresh interpreter, PYTHONHASHSEED={hs + seed % 997}"})
                    break
        rec.sample({**wit, "digest_head": s1[:3], "files": {k: i1[k] for k in ("log_bytes", "traj_bytes", "restart_bytes")}}, cap=2)
    ks = list(at5)
    for a in range(len(ks)):
        for b in range(a + 1, len(ks)):
            rec.count("distinct_seed_pairs")
            if at5[ks[a]] == at5[ks[b]]:
                rec.viol(f"C06/seeds-collide/{w['driver']}", f"seeds {ks[a]} and {ks[b]} give the same state after 5 steps", {"workload": spec["name"], "seeds": [ks[a], ks[b]]})
    return rec.out()


def child_stream(w, seed, steps, hashseed=1):
    from qv import env

    e = dict(os.environ)
    e["PYTHONHASHSEED"] = str(hashseed)
    e["PYTHONPATH"] = env.VERIF + os.pathsep + env.SRC
    payload = json.dumps({"w": w, "seed": seed, "steps": steps})
    try:
        p = subprocess.run([env.PY, "-m", "qv.props.c06", "--child"], input=payload, capture_output=True, text=True, timeout=600, env=e)
    except subprocess.TimeoutExpired:
        return None
    if p.returncode != 0:
        sys.stderr.write(p.stderr[-800:])
        return None
    return json.loads(p.stdout.strip().splitlines()[-1])


if __name__ == "__main__" and "--child" in sys.argv:
    import warnings

    warnings.simplefilter("ignore")
    install_tripwires()
    from qv import env as _env

    _env.import_quansino()
    job = json.loads(sys.stdin.read())
    np.random.seed(12345)
    stream, _ = run_stream(job["w"], job["seed"], job["steps"])
    print(json.dumps(stream))
