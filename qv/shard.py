"""Run one shard in a fresh interpreter: python -m qv.shard <PROP> <spec.json> <out.json>."""
from __future__ import annotations

import faulthandler
import importlib
import json
import os
import sys
import traceback
import warnings


def main() -> int:
    prop, spec_file, out_file = sys.argv[1:4]
    faulthandler.enable()
    from qv import env

    env.setup_path()
    warnings.simplefilter("ignore")
    with open(spec_file) as fh:
        spec = json.load(fh)
    mod = importlib.import_module(f"qv.props.{prop.lower()}")
    try:
        res = mod.run(spec)
    except Exception as ex:
        traceback.print_exc()
        # Checks whose shards hand the package nothing but inputs inside the statement's domain (and that complete
        # without an exception on the pinned tree) declare PACKAGE_RAISE_IS_VIOLATION: an exception raised from
        # package code is then the package failing on an in-domain input.  Anything else is a harness failure:
        # the shard dies and the run is inconclusive.
        tb = traceback.extract_tb(ex.__traceback__)
        inner = tb[-1] if tb else None
        if getattr(mod, "PACKAGE_RAISE_IS_VIOLATION", False) and inner is not None and os.path.abspath(inner.filename).startswith(os.path.abspath(env.SRC) + os.sep):
            where = f"{os.path.relpath(inner.filename, env.SRC)}:{inner.name}"
            res = {
                "name": spec.get("name"),
                "evaluations": 1,
                "counters": {"package_raised": 1},
                "cases": [],
                "samples": [],
                "inconclusive": [],
                "violations": [{"key": f"{prop.upper()}/package-raised/{type(ex).__name__}@{where}", "what": f"the package raised {type(ex).__name__}: {ex} on an input inside the statement's domain"[:300], "witness": {"traceback": traceback.format_exc()[-900:]}}],
            }
            with open(out_file, "w") as fh:
                json.dump(res, fh, default=str)
            return 0
        return 3
    res.setdefault("name", spec.get("name"))
    with open(out_file, "w") as fh:
        json.dump(res, fh, default=str)
    return 0


if __name__ == "__main__":
    sys.exit(main())
