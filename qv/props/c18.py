"""C18 - adaptive force-bias step length stays in range and shrinks with uncertainty.

Monitor: a contract wrapped around the real `AdaptiveForceBias.update_delta` (class
attribute, so in-step calls are seen too).  The workload hands the driver committee data
(through a real ASE calculator's results, the documented channel) constructed so that
the variation takes prescribed values, or registers a prescribed-variation scheme in the
public `schemes` table for values no finite committee can realise; the oracle computes
the expected variation itself and judges the resulting delta.
Each live driver is re-tuned (range, reference variance re-assigned) and judged again,
and a step with a zero-variance committee must leave delta at max_delta.
Committees are also handed over as plain lists / tuples, and half of the drivers have atoms of different masses.
Committee forces are scaled by 1e-14 .. 1e4 (overall or per coordinate): the relative spread does not depend on it.
Two thirds of the drivers read their committees under keys of their own (subclass override / re-assigned keywords).
"""
from __future__ import annotations

import math

import numpy as np

from qv.lib import Prescribed, Rec, derive_seed, rng_for

PACKAGE_RAISE_IS_VIOLATION = True  # every shard input is built inside the statement's domain (see qv/shard.py)
LEVEL = "exploration"
RULE = (
    "one evaluation = one update_delta call on (min_delta, max_delta, reference variance, scheme, update function, variance input); "
    "distinct by (scheme, update function, decade of max/min ratio, decade of reference, class of variance: zero/tiny/below/reference/above/large/huge/missing); "
    "non-trivial when min_delta < max_delta"
)
ASSUMPTIONS = [
    "range / anchor tolerance 8 ulp of max(|min|,|max|) (min+(max-min) is not exactly max in floating point); midpoint tolerance 1e-12 relative",
    "'large variance' = variance >= 64 x reference (update factor <= 1e-19): delta within 1e-15*(max-min) + 1e-12*min_delta of min_delta; the lower range bound is checked to 4 ulp of min_delta",
    "committee inputs whose variation is 0/0 (all members exactly zero) are outside the domain and not judged",
]
REQUIRED = {"drivers_with_their_own_committee_keys": 50, "committees_with_forces_below_1e-8": 100, "calls_after_retuning": 500, "update_calls": 2000, "anchor_zero": 50, "anchor_reference": 50, "anchor_large": 50, "monotone_pairs": 1000, "fallback_calls": 20, "per_coordinate_calls": 200, "in_step_calls": 10}
SHARD_TIMEOUT = {"quick": 600, "thorough": 2400}

EXPECT: dict[int, dict] = {}  # id(driver) -> what the workload fed it


def plan(tier, seed):
    n = 16
    per = 40 if tier == "quick" else 4000
    return [{"name": f"cfg{j}", "j": j, "seed": seed, "configs": per} for j in range(n)]


def ulp_tol(lo, hi):
    return 8 * np.spacing(max(abs(lo), abs(hi), 1e-300))


def install_contract(rec: Rec):
    from quansino.mc.fbmc import AdaptiveForceBias

    orig = AdaptiveForceBias.update_delta

    def wrapped(self):
        out = orig(self)
        exp = EXPECT.get(id(self))
        rec.count("update_calls")
        if exp is None:
            return out
        judge(rec, self, exp)
        return out

    AdaptiveForceBias.update_delta = wrapped


def judge(rec: Rec, drv, exp):
    lo, hi, ref = exp["min"], exp["max"], exp["ref"]
    v = exp["v"]  # expected variation (scalar or array), computed by the harness
    d = np.asarray(drv.delta, dtype=float)
    vv = np.broadcast_to(np.asarray(v, dtype=float), d.shape) if np.ndim(v) or d.ndim else np.asarray(v, dtype=float)
    tol = ulp_tol(lo, hi)
    wit = {"min_delta": lo, "max_delta": hi, "reference_variance": ref, "scheme": exp["scheme"], "update_function": exp["fn"], "variance": np.asarray(v).ravel()[:6].tolist(), "delta": d.ravel()[:6].tolist(), "how": exp["how"]}
    fnk = f"{exp['fn']}/{exp['scheme']}"
    if d.ndim:
        rec.count("per_coordinate_calls")
    if not np.all(np.isfinite(d)):
        rec.viol(f"C18/not-finite/{fnk}", "delta is not finite for a finite variance", wit)
        return
    # lower end: min + (max-min)*f with f >= 0 can never round below min, so the tolerance there is relative to min_delta
    # (a few ulp of min), not to max_delta; upper end: min + (max-min) may exceed max by an ulp of max
    if np.any(d < lo - 4 * np.spacing(abs(lo))) or np.any(d > hi + tol):
        rec.viol(f"C18/out-of-range/{fnk}", f"delta outside [min_delta, max_delta]: {d.min()}..{d.max()} vs [{lo},{hi}]", wit)
    span = hi - lo
    z = vv == 0
    if np.any(z):
        rec.count("anchor_zero")
        if np.any(np.abs((d[z] if d.ndim else d) - hi) > tol):
            rec.viol(f"C18/zero-variance-not-max/{fnk}", "delta differs from max_delta at zero variance", wit)
    r = vv == ref
    if np.any(r):
        rec.count("anchor_reference")
        mid = 0.5 * (lo + hi)
        if np.any(np.abs((d[r] if d.ndim else d) - mid) > 1e-12 * max(abs(hi), abs(lo)) + tol):
            rec.viol(f"C18/reference-not-midpoint/{fnk}", f"delta differs from the midpoint {mid} at the reference variance", wit)
    big = vv >= 64 * ref
    if np.any(big):
        rec.count("anchor_large")
        if np.any(np.abs((d[big] if d.ndim else d) - lo) > 1e-15 * span + 1e-12 * abs(lo) + 4 * np.spacing(abs(lo))):
            rec.viol(f"C18/large-variance-not-min/{fnk}", "delta does not approach min_delta for variance >= 64 x reference", wit)
    exp["out"] = d.copy()


def make_driver(rng, lo, hi, ref, scheme, fn, natoms):
    from ase import Atoms

    from quansino.mc.fbmc import AdaptiveForceBias

    atoms = Atoms("Cu" * natoms, positions=rng.uniform(0, 6, (natoms, 3)), cell=[8, 8, 8], pbc=False)
    calc = Prescribed(energy=0.0, forces=np.zeros((natoms, 3)))
    atoms.calc = calc
    if rng.random() < 0.5:
        atoms.set_masses(rng.uniform(1, 200, natoms))  # several species: the adapted delta is the same for all of them
    # the committee calculator at hand may publish its data under other keys than the defaults: a subclass that overrides
    # the two documented keywords, or the keywords re-assigned on the driver object
    kind = int(rng.integers(0, 3))
    cls = AdaptiveForceBias
    if kind == 1:
        cls = type("MyCommitteeForceBias", (AdaptiveForceBias,), {"forces_variance_keyword": "my_forces_committee", "energies_variance_keyword": "my_energy_committee"})
    drv = cls(atoms, min_delta=lo, max_delta=hi, temperature=300.0, scheme=scheme, reference_variance=ref, update_function=fn, seed=derive_seed("c18", lo, hi, ref))
    if kind == 2:
        try:
            drv.forces_variance_keyword = "forces_of_the_members"
            drv.energies_variance_keyword = "energies_of_the_members"
        except AttributeError:
            kind = 0  # (a class that does not let its instances override the keywords: defaults then)
    KEYS[id(drv)] = {0: ("forces_comm", "energies"), 1: ("my_forces_committee", "my_energy_committee"), 2: ("forces_of_the_members", "energies_of_the_members")}[kind]
    if kind:
        COUNTS["drivers_with_their_own_committee_keys"] = COUNTS.get("drivers_with_their_own_committee_keys", 0) + 1
    return drv, atoms, calc


KEYS: dict = {}


COUNTS: dict = {}


def feed(drv, atoms, calc, rng, scheme, v, how):
    """Arrange the committee so the variation equals v (scalar or (N,3) array).  Returns v as the oracle computes it."""
    n = len(atoms)
    if how == "prescribed":
        drv.schemes["prescribed"] = lambda a, _v=v: _v
        drv.scheme = "prescribed"
        return v
    drv.scheme = scheme
    if scheme == "forces":
        vv = np.broadcast_to(np.asarray(v, dtype=float), (n, 3))
        x = rng.uniform(0.5, 2.0, (n, 3)) * rng.choice([-1.0, 1.0], (n, 3))
        # the relative spread of a committee does not depend on how large the forces are: nearly relaxed or symmetric sites
        # (forces of 1e-8 eV/A and far below) and stiff contacts (1e4) alike, for all coordinates or for some of them
        sk = rng.random()
        if sk < 0.4:
            x = x * float(10 ** rng.uniform(-14, 4))
        elif sk < 0.6:
            x = x * 10 ** rng.uniform(-14, 4, (n, 3))
        if np.abs(x).min() < 1e-8:
            COUNTS["committees_with_forces_below_1e-8"] = COUNTS.get("committees_with_forces_below_1e-8", 0) + 1
        comm = np.stack([x * (1 + vv), x * (1 - vv)])  # |v| <= 1: std = |x| v, mean|.| = |x|
        # the committee as an array, or as the plain list / tuple of per-member arrays a committee assembled from several
        # ordinary calculators hands over
        shape_kind = int(rng.integers(0, 3))
        fkey = KEYS.get(id(drv), ("forces_comm", "energies"))[0]
        calc.extra = {fkey: comm if shape_kind == 0 else ([m for m in comm] if shape_kind == 1 else tuple(m.tolist() for m in comm))}
        atoms.positions += 1e-3  # invalidate the cache so results are rebuilt
        atoms.get_potential_energy()
        c = np.asarray(atoms.calc.results[fkey], dtype=float)
        return np.std(c, axis=0) / np.mean(np.abs(c), axis=0)
    e0 = float(rng.normal())
    dd = float(v) * n
    es = np.array([e0 + dd, e0 - dd])
    ekey = KEYS.get(id(drv), ("forces_comm", "energies"))[1]
    calc.extra = {ekey: es if rng.random() < 0.5 else es.tolist()}
    atoms.positions += 1e-3
    atoms.get_potential_energy()
    return float(np.std(np.asarray(atoms.calc.results[ekey], dtype=float))) / n


def vclass(v, ref):
    v = float(np.max(v))
    if v == 0:
        return "zero"
    if v < 1e-100:
        return "tiny"
    if v == ref:
        return "reference"
    if v < ref:
        return "below"
    if v >= 1e100:
        return "huge"
    if v >= 64 * ref:
        return "large"
    return "above"


def run(spec):
    from qv import env

    env.import_quansino()
    rec = Rec(spec["name"])
    install_contract(rec)
    rng = rng_for("C18", spec["seed"], spec["j"])
    for _ in range(spec["configs"]):
        lo = float(10 ** rng.uniform(-4, 1))
        ratio = float(rng.choice([1.0, 1.0 + 1e-9, 1.5, 3.0, 10.0, 1e3, 1e6, 1e9, 1e13, 1e17]))
        hi = lo * ratio
        ref = float(10 ** rng.uniform(-6, 3))
        scheme = str(rng.choice(["forces", "energy"]))
        fn = str(rng.choice(["tanh", "exp"]))
        natoms = int(rng.integers(1, 5))
        drv, atoms, calc = make_driver(rng, lo, hi, ref, scheme, fn, natoms)
        base = {"min": lo, "max": hi, "ref": ref, "scheme": scheme, "fn": fn}
        # ---- anchors and a sorted sweep through a prescribed-variation scheme and through committees
        sweep = sorted({0.0, 1e-300, 1e-30, ref * 1e-6, ref * 0.1, ref * 0.5, ref, ref * 1.5, ref * 2, ref * 5, ref * 20, ref * 64, ref * 1e3, 1e100, 1e300, *(float(ref * 10 ** rng.uniform(-3, 2)) for _ in range(10))})
        prev = None
        for v in sweep:
            for how in ("prescribed", "committee"):
                if how == "committee" and scheme == "forces" and v > 1.0:
                    continue  # two-member committee realises variation <= 1 only
                if how == "committee" and scheme == "energy" and v > 1e200:
                    continue
                vin = v
                if how == "prescribed" and scheme == "forces" and rng.random() < 0.5:
                    vin = np.full((natoms, 3), v)
                try:
                    vexp = feed(drv, atoms, calc, rng, scheme, vin, how)
                    if how == "committee" and not np.allclose(np.max(vexp), v, rtol=1e-6, atol=1e-300):
                        # committee arithmetic rounded the variation: judge against what the committee really encodes
                        pass
                    EXPECT[id(drv)] = {**base, "v": vexp, "how": how}
                    rec.evaluations += 1
                    drv.update_delta()
                except Exception as ex:  # noqa: BLE001
                    rec.viol(f"C18/raised/{type(ex).__name__}/{fn}/{scheme}", f"update_delta raised {type(ex).__name__}: {ex}", {**base, "variance": v, "how": how})
                    continue
                if lo < hi:
                    rec.case(scheme, fn, how, int(math.log10(ratio)), int(math.floor(math.log10(ref))), vclass(vexp, ref))
                if how == "prescribed":
                    out = float(np.max(EXPECT[id(drv)].get("out", np.nan)))
                    if prev is not None:
                        rec.count("monotone_pairs")
                        if out > prev[1] + ulp_tol(lo, hi):
                            rec.viol(f"C18/not-monotone/{fn}/{scheme}", f"delta increased from {prev[1]} to {out} when the variance rose from {prev[0]} to {v}", {**base, "variance_pair": [prev[0], v]})
                    prev = (v, out)
        rec.sample({**base, "sweep_head": sweep[:6], "delta_at_reference": 0.5 * (lo + hi)}, cap=2)
        # ---- mixed per-coordinate variances in one call (forces scheme)
        if scheme == "forces":
            vv = np.array([[0.0, ref if ref <= 1 else 0.5, min(1.0, ref * 70)]] * natoms)
            try:
                vexp = feed(drv, atoms, calc, rng, scheme, vv, "committee")
                EXPECT[id(drv)] = {**base, "v": vexp, "how": "committee-mixed"}
                rec.evaluations += 1
                drv.update_delta()
            except Exception as ex:  # noqa: BLE001
                rec.viol(f"C18/raised/{type(ex).__name__}/{fn}/{scheme}", f"update_delta raised {type(ex).__name__}: {ex}", {**base, "how": "mixed"})
        # ---- fallback: no committee data -> reference variance -> midpoint
        for how in ("missing-key", "no-calculator"):
            drv.scheme = scheme
            if how == "missing-key":
                calc.extra = {}
                atoms.positions += 1e-3
                atoms.get_potential_energy()
            else:
                atoms.calc = None
            EXPECT[id(drv)] = {**base, "v": ref, "how": how}
            rec.evaluations += 1
            rec.count("fallback_calls")
            try:
                drv.update_delta()
            except Exception as ex:  # noqa: BLE001
                rec.viol(f"C18/fallback-raised/{how}/{type(ex).__name__}", f"update_delta without committee data raised {type(ex).__name__}: {ex}", {**base, "how": how})
            rec.case(scheme, fn, how)
            atoms.calc = calc
        # ---- the same live object re-tuned through its documented attributes (a reference variance, a range or an
        #      update function changed in the middle of a run): every clause again with the new settings
        lo2 = float(10 ** rng.uniform(-4, 1))
        hi2 = lo2 * float(rng.choice([1.0, 1.5, 10.0, 1e6]))
        ref2 = float(ref * 10 ** rng.uniform(-3, 3))
        drv.min_delta, drv.max_delta, drv.reference_variance = lo2, hi2, ref2
        base2 = {"min": lo2, "max": hi2, "ref": ref2, "scheme": scheme, "fn": fn, "retuned": True}
        for how, v in (("missing-key", ref2), ("prescribed", 0.0), ("prescribed", ref2), ("prescribed", ref2 * 64), ("missing-key", ref2)):
            try:
                if how == "missing-key":
                    drv.scheme = scheme
                    calc.extra = {}
                    atoms.positions += 1e-3
                    atoms.get_potential_energy()
                    vexp = ref2
                else:
                    vexp = feed(drv, atoms, calc, rng, scheme, v, how)
                EXPECT[id(drv)] = {**base2, "v": vexp, "how": how + " after re-tuning"}
                rec.evaluations += 1
                rec.count("calls_after_retuning")
                drv.update_delta()
            except Exception as ex:  # noqa: BLE001
                rec.viol(f"C18/raised/{type(ex).__name__}/{fn}/{scheme}", f"update_delta raised {type(ex).__name__}: {ex} after re-tuning", {**base2, "how": how})
        drv.min_delta, drv.max_delta, drv.reference_variance = lo, hi, ref
        # ---- the in-step call uses the adapted delta
        if scheme == "forces":
            vexp = feed(drv, atoms, calc, rng, scheme, 0.0, "committee")
            EXPECT[id(drv)] = {**base, "v": vexp, "how": "in-step"}
            try:
                drv.delta = 0.5 * (lo + hi)  # whatever it was: the step itself has to adapt it to the committee at hand
                drv.step()
                rec.count("in_step_calls")
                if lo < hi and not np.all(np.abs(np.asarray(drv.delta, dtype=float) - hi) <= ulp_tol(lo, hi)):
                    rec.viol(f"C18/in-step/delta-not-adapted/{fn}", f"after a step with a zero-variance committee delta is {np.asarray(drv.delta).ravel()[:3]}, max_delta is {hi}: the step did not adapt its length", {**base, "how": "in-step"})
            except Exception as ex:  # noqa: BLE001
                rec.viol(f"C18/step-raised/{type(ex).__name__}", f"AdaptiveForceBias.step raised {type(ex).__name__}: {ex}", base)
        EXPECT.pop(id(drv), None)
    for k_, v_ in COUNTS.items():
        rec.count(k_, v_)
    return rec.out()
