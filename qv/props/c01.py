"""C01 - ensembles reproduce exact averages of solvable systems.

Monitor: observables sampled after every step of real simulations of analytically
solvable systems, with independent analytic calculators defined in the harness:
(a) canonical, harmonically bound particles: <E_pot> = (3N/2) kT for every shipped
proposal (ball, box, sphere, composite operation, composite move, Hamiltonian);
(b) canonical, rigid dipole in a uniform field moved by Rotation / TranslationRotation in
a periodic triclinic cell: <cos theta> = coth x - 1/x; (c) isobaric ideal gas:
<V> = (N+1) kT/P and <V^2> = (N+1)(N+2)(kT/P)^2; (d) grand-canonical ideal gas:
N ~ Poisson(V exp(mu/kT)/Lambda^3) (mean, variance, per-bin frequencies), accepted
insertions uniform in the cell, inserted molecules uniformly oriented.
Decision: K independent chains per workload, standard error from the spread of the chain
means; |z| > 5 flags; a flag is re-measured once with fresh seeds and 4x the samples and
is a violation only if flagged again with the same sign.
Workloads added after the seeded-change rounds: a coarse-step Hamiltonian run in which
most proposals are rejected, and a grand-canonical ideal gas next to a framework of
non-exchanged atoms (negative labels).
Further workloads: an isobaric run on a left-handed cell, one whose moves are handed to the driver's constructor with
molecular / frozen labels, a grand-canonical run whose state point is re-assigned live.  An average that is off by more
than a factor of three in every chain on the same side is flagged (and re-measured) whatever its z-score.
Grand-canonical ideal gases are also confined to a slab of the cell through the exchange move's check_move (one
placement per trial with refused placements as failed trials; placements redrawn with the slab as accessible volume).
One grand-canonical workload leaves max_cycles at its default (one cycle per atom at construction), read once per step.
"""
from __future__ import annotations

import math

import numpy as np
from ase.units import fs, kB

from qv.lib import Dipole, Rec, chi2_p, derive_seed
from qv.metropolis import thermal_wavelength

LEVEL = "exploration"
RULE = (
    "one evaluation = one Monte Carlo step of one chain; a case = one (ensemble, system, proposal, N, T / x / lambda, cell) workload measured with K=16 independent chains; "
    "distinct by workload; non-trivial = workloads whose standard error resolves a 10% deviation at 5 sigma (others are counted as unresolved)"
)
ASSUMPTIONS = [
    "the limit over the whole chain is restated as: the estimate from K=16 independent chains of length L (20% burn-in discarded) agrees with the analytic value within 5 standard errors "
    "(SE = spread of the chain means / sqrt(K)), and if it does not, neither does an independent re-measurement with 4x the samples (same sign)",
    "i.i.d. tests (insertion positions, orientations of inserted molecules) use chi-square with p < 1e-6 flagged and the same re-measurement rule",
    "thermal wavelength of a molecule uses its total mass (rigid particle without internal partition function), as the statement's formula does",
]
REQUIRED = {"workloads_resolved:canonical-harmonic": 5, "workloads_resolved:canonical-dipole": 3, "workloads_resolved:isobaric": 3, "workloads_resolved:grand": 4, "insertion_uniformity_tests": 3, "orientation_tests": 1, "poisson_bins_tested": 12}
SHARD_TIMEOUT = {"quick": 1500, "thorough": 6000}
K = 16
KT = lambda T: kB * T  # noqa: E731


def plan(tier, seed):
    big = tier != "quick"
    L = {"h": 4000, "d": 3500, "v": 5000, "g": 5000}
    if big:
        L = {k: v * 12 for k, v in L.items()}
    W = []
    # (a) canonical harmonic
    props = [("Ball", {"t": "Ball", "step": 0.45}), ("Box", {"t": "Box", "step": 0.35}), ("Sphere", {"t": "Sphere", "step": 0.3}), ("Ball+Box", [{"t": "Ball", "step": 0.25}, {"t": "Box", "step": 0.2}])]
    grid = [(1, 300.0), (2, 100.0), (5, 1000.0), (2, 300.0)]
    for i, (pn, op) in enumerate(props):
        n, T = grid[i]
        W.append({"kind": "harmonic", "name": f"harmonic-{pn}-N{n}-T{int(T)}", "prop": pn, "op": op, "n": n, "T": T, "L": L["h"]})
    W.append({"kind": "harmonic", "name": "harmonic-D*2-N5-T300", "prop": "D*2", "op": {"t": "Ball", "step": 0.45}, "mul": 2, "n": 5, "T": 300.0, "L": L["h"]})
    W.append({"kind": "harmonic", "name": "harmonic-D+D-N2-T1000", "prop": "D+D", "op": {"t": "Box", "step": 0.35}, "add": True, "n": 2, "T": 1000.0, "L": L["h"]})
    W.append({"kind": "harmonic", "name": "harmonic-HMC-N2-T300", "prop": "HMC", "n": 2, "T": 300.0, "L": L["h"] // 4})
    W.append({"kind": "harmonic", "name": "harmonic-HMC-N5-T1000", "prop": "HMC", "n": 5, "T": 1000.0, "L": L["h"] // 4})
    # coarse time step: a third or more of the proposals are rejected, so whatever a rejected proposal leaves behind
    # (momenta, cached forces, reference energies) weighs on the averages
    W.append({"kind": "harmonic", "name": "harmonic-HMCcoarse-N2-T300", "prop": "HMC", "hdt": 1.45, "hsteps": 3, "n": 2, "T": 300.0, "L": L["h"] // 2})
    if big:
        for i, (pn, op) in enumerate(props):
            n, T = grid[(i + 2) % 4]
            W.append({"kind": "harmonic", "name": f"harmonic-{pn}-N{n}-T{int(T)}", "prop": pn, "op": op, "n": n, "T": T, "L": L["h"]})
    # (b) dipole
    for x in (0.5, 2.0, 5.0):
        for op in ("Rotation", "TranslationRotation"):
            if not big and op == "TranslationRotation" and x == 2.0:
                continue
            W.append({"kind": "dipole", "name": f"dipole-{op}-x{x}", "op": op, "x": x, "L": L["d"]})
    # (c) isobaric ideal gas
    for n, mixed, scale in [(1, False, True), (3, True, True), (8, False, False), (3, False, False)] + ([(8, True, True), (1, True, False)] if big else []):
        W.append({"kind": "isobaric", "name": f"isobaric-N{n}-{'mixed' if mixed else 'cell'}-{'scaled' if scale else 'unscaled'}", "n": n, "mixed": mixed, "scale": scale, "L": L["v"]})
    W.append({"kind": "isobaric", "name": "isobaric-N3-left-handed-cell", "n": 3, "mixed": True, "scale": True, "lefthanded": True, "L": L["v"]})
    W.append({"kind": "isobaric", "name": "isobaric-N5-constructor-moves-molecular-labels", "n": 5, "mixed": True, "scale": True, "ctor": True, "L": L["v"]})
    # (d) grand canonical ideal gas
    for lam, mol, tri, mixed in [(0.5, False, False, False), (3.0, False, True, True), (8.0, False, False, False), (3.0, True, False, False), (0.5, True, True, True)] + ([(8.0, True, False, True), (3.0, False, False, False)] if big else []):
        W.append({"kind": "grand", "name": f"grand-lam{lam}-{'N2' if mol else 'Ar'}-{'tri' if tri else 'cubic'}-{'mixed' if mixed else 'exch'}", "lam": lam, "mol": mol, "tri": tri, "mixed": mixed, "L": L["g"]})
    W.append({"kind": "grand", "name": "grand-lam3.0-Ar-state-point-reassigned-900K", "lam": 3.0, "mol": False, "tri": False, "mixed": False, "retune": 900.0, "L": L["g"]})
    for lam, mol, fw in [(3.0, False, 6)] + ([(3.0, True, 4), (8.0, False, 12)] if big else []):
        W.append({"kind": "grand", "name": f"grand-lam{lam}-{'N2' if mol else 'Ar'}-framework{fw}", "lam": lam, "mol": mol, "tri": False, "mixed": True, "fw": fw, "L": L["g"]})
    for lam, mol, f, mode in [(4.0, False, 0.5, "single-attempt"), (3.0, False, 0.3, "redrawn")] + ([(3.0, True, 0.5, "single-attempt"), (8.0, False, 0.7, "single-attempt")] if big else []):
        W.append({"kind": "grand", "name": f"grand-lam{lam}-{'N2' if mol else 'Ar'}-restricted-region-{f}-{mode}", "lam": lam, "mol": mol, "tri": False, "mixed": False, "region": {"f": f, "mode": mode}, "L": L["g"]})
    W.append({"kind": "grand", "name": "grand-lam5.0-Ar-default-cycles", "lam": 5.0, "mol": False, "tri": False, "mixed": False, "default_cycles": True, "L": L["g"] // 3})
    return [{"name": w["name"], "w": w, "seed": seed} for w in W]


# ----------------------------------------------------------------------------- chains
def chain_harmonic(w, seed, L):
    from ase import Atoms

    from qv import sims
    from qv.lib import Harmonic

    n, T = w["n"], w["T"]
    kT = KT(T)
    k = kT / 0.04  # sigma = 0.2 A
    sites = np.array([[10.0 * i, 0.0, 0.0] for i in range(n)]) + 5.0
    mass = 20.0
    spec = {"driver": "Canonical", "T": T, "cycles": 1, "seed": seed, "atoms": {"kind": "gas", "n": n, "pbc": False}, "calc": {"kind": "ideal"}, "table": []}
    if w["prop"] == "HMC":
        spec["driver"] = "HamiltonianCanonical"
        omega = math.sqrt(k / mass)
        spec["table"] = [{"name": "h", "move": {"t": "H", "dt": w.get("hdt", 0.5) / omega / fs, "steps": w.get("hsteps", 3)}}]
    else:
        d = {"t": "D", "op": w["op"]}
        if w.get("mul"):
            spec["table"] = [{"name": "d", "move": {"t": "*", "part": d, "n": w["mul"]}, "criteria": "canonical"}]
        elif w.get("add"):
            spec["table"] = [{"name": "d", "move": {"t": "+", "parts": [d, dict(d)]}, "criteria": "canonical"}]
        else:
            spec["table"] = [{"name": "d", "move": d}]
    mc, _ = sims.build(spec)
    atoms = mc.atoms
    atoms.set_masses(np.full(n, mass))
    atoms.positions = sites + np.random.default_rng(seed % 2**32).normal(scale=0.2, size=(n, 3))
    atoms.set_momenta(np.zeros((n, 3)))
    atoms.calc = Harmonic(sites, k)
    mc.context.last_positions = atoms.get_positions()
    out = np.empty(L)
    acc = np.empty(L)
    for i, _ in enumerate(mc.srun(L)):
        out[i] = atoms.get_potential_energy()
        acc[i] = float(bool(mc.move_history and mc.move_history[-1][1]))
    return {"E/kT": out / kT}, {"accepted": acc}


def chain_dipole(w, seed, L):
    from ase import Atoms

    from quansino.mc.canonical import Canonical
    from qv import sims

    T = 300.0
    kT = KT(T)
    cell = np.array([[9.0, 0, 0], [1.5, 8.0, 0], [-1.0, 2.0, 10.0]])
    r = np.random.default_rng(seed % 2**32)
    v = r.normal(size=3)
    v /= np.linalg.norm(v)
    c = r.uniform(0.2, 0.8, 3) @ cell
    atoms = Atoms("CO", positions=[c - 0.55 * v, c + 0.55 * v], cell=cell, pbc=True)
    atoms.calc = Dipole(w["x"] * kT)
    mc = Canonical(atoms, temperature=T, max_cycles=1, seed=seed)
    mc.add_move(sims.build_move({"t": "D", "op": {"t": w["op"]}}, np.array([0, 0]), {}), name="r")
    out = np.empty(L)
    for i, _ in enumerate(mc.srun(L)):
        b = atoms.positions[1] - atoms.positions[0]
        out[i] = b[2] / np.linalg.norm(b)
    return {"cos": out}, {}


def chain_isobaric(w, seed, L):
    from ase import Atoms

    from quansino.mc.isobaric import Isobaric
    from qv import sims
    from qv.lib import IdealGas

    n, T = w["n"], 300.0
    kT = KT(T)
    V0 = 1000.0
    P = (n + 1) * kT / V0
    r = np.random.default_rng(seed % 2**32)
    edge = V0 ** (1 / 3) * float(np.exp(r.uniform(-0.2, 0.2)))
    atoms = Atoms("Ar" * n, positions=r.uniform(0, edge, (n, 3)), cell=[edge] * 3, pbc=True)
    if w.get("lefthanded"):
        # the same box with its lattice vectors listed as a left-handed set (negative determinant, same volume)
        atoms.set_cell(np.array([[0.0, edge, 0.0], [edge, 0.0, 0.0], [0.0, 0.0, edge]]), scale_atoms=False)
    atoms.calc = IdealGas()
    if w.get("ctor"):
        # moves handed to the driver's constructor (default_displacement_move / default_cell_move), atoms grouped into
        # molecules with one frozen atom (negative label): the volume law is that of N = n atoms all the same
        lab = np.arange(n) // 2
        lab[-1] = -1
        mc = Isobaric(atoms, temperature=T, pressure=P, max_cycles=1, seed=seed, default_displacement_move=sims.build_move({"t": "D", "op": {"t": "Ball", "step": 1.0}}, lab, {}), default_cell_move=sims.build_move({"t": "C", "op": {"t": "Iso", "mv": 0.25}, "scale": w["scale"]}, None, {}))
        mc.moves["default_cell_move"].probability = 1.0
        mc.moves["default_displacement_move"].probability = 1.0
    else:
        mc = Isobaric(atoms, temperature=T, pressure=P, max_cycles=1, seed=seed)
        mc.add_move(sims.build_move({"t": "C", "op": {"t": "Iso", "mv": 0.25}, "scale": w["scale"]}, None, {}), name="c", probability=1.0)
        if w["mixed"]:
            mc.add_move(sims.build_move({"t": "D", "op": {"t": "Ball", "step": 1.0}}, np.arange(n), {}), name="d", probability=1.0)
    out = np.empty(L)
    for i, _ in enumerate(mc.srun(L)):
        out[i] = atoms.cell.volume
    u = out / ((n + 1) * kT / P)
    return {"V/Vexp": u, "V2/V2exp": out**2 / ((n + 1) * (n + 2) * (kT / P) ** 2)}, {}


def chain_grand(w, seed, L):
    from ase import Atoms

    from quansino.mc.gcmc import GrandCanonical
    from qv import sims
    from qv.lib import IdealGas

    T = 300.0
    kT = KT(T)
    cell = np.eye(3) * 10.0
    if w["tri"]:
        cell = np.array([[10.0, 0, 0], [2.5, 9.0, 0], [-1.5, 3.0, 11.0]])
    V = abs(np.linalg.det(cell))
    species = sims.molecule_template(2 if w["mol"] else 1)
    size = len(species)
    lam3 = thermal_wavelength(float(species.get_masses().sum()), T) ** 3
    # a restricted region (the documented use of check_move on an exchange move): particles may only be placed in the
    # slab 0 <= x < f of the cell, the ideal gas lives in the volume f V and its mean number is lam there
    Veff = V * (float(w["region"]["f"]) if w.get("region") else 1.0)
    mu = kT * math.log(w["lam"] * lam3 / Veff)
    r = np.random.default_rng(seed % 2**32)
    n0 = int(r.poisson(w["lam"]))
    if w.get("default_cycles"):
        n0 = max(1, n0)  # (an empty box would mean zero cycles per step)
    atoms = Atoms(cell=cell, pbc=True)
    labels = []
    fw = int(w.get("fw", 0))
    if fw:
        # a host framework that is not exchanged (negative labels): the ideal gas does not see it, the exchange
        # move's particle selection must not either
        atoms += Atoms("Cu" * fw, positions=r.uniform(0, 1, (fw, 3)) @ cell)
        labels += [-1] * fw
    region = w.get("region")
    f_allowed = float(region["f"]) if region else 1.0
    for m in range(n0):
        a = species.copy()
        a.translate((r.uniform(0, 1, 3) * [f_allowed, 1, 1]) @ cell)
        atoms += a
        labels += [m] * size
    atoms.calc = IdealGas()
    # one trial per step, except in the workloads that leave max_cycles at its documented default (one cycle per atom present
    # at construction; the observable is still read once per step, as an observer would)
    ckw = {} if w.get("default_cycles") else {"max_cycles": 1}
    mc = GrandCanonical(atoms, exchange_atoms=species, temperature=T, chemical_potential=mu, number_of_exchange_particles=n0, seed=seed, **ckw)
    op = {"t": "TranslationRotation"} if w["mol"] else None
    mc.add_move(sims.build_move({"t": "E", "op": op}, np.array(labels, dtype=int), {}), name="x", probability=1.0)
    if region:
        icell_ = np.linalg.inv(cell)

        def in_region(context, f=f_allowed, icell_=icell_):
            p = context.atoms.positions[context._moving_indices].mean(0)
            return bool(((p @ icell_)[0] % 1.0) < f)

        xm = mc.moves["x"].move
        xm.check_move = in_region
        if region["mode"] == "single-attempt":
            # one placement per trial, drawn from the whole cell: a refused placement is a failed trial and the volume
            # the proposal is drawn from stays the cell volume (the context's default accessible volume)
            xm.max_attempts = 1
        else:
            # placements are redrawn until one is allowed (default max_attempts): the proposal is uniform in the
            # region, whose volume is given to the simulation as its accessible volume
            mc.accessible_volume = Veff
    if w["mixed"]:
        mc.add_move(sims.build_move({"t": "D", "op": {"t": "TranslationRotation"} if w["mol"] else {"t": "Ball", "step": 1.0}}, np.array(labels, dtype=int), {}), name="d", probability=0.5)
    if w.get("retune"):
        # equilibrate at another state point, then re-assign temperature and chemical potential on the live simulation
        # (same target mean number) and measure there
        T2 = float(w["retune"])
        kT2 = KT(T2)
        for _ in mc.srun(max(50, L // 10)):
            pass
        mc.temperature = T2
        mc.chemical_potential = kT2 * math.log(w["lam"] * thermal_wavelength(float(species.get_masses().sum()), T2) ** 3 / V)
    out = np.empty(L)
    ins_frac, ins_dir = [], []
    icell = np.linalg.inv(cell)
    prev = len(atoms)
    for i, _ in enumerate(mc.srun(L)):
        now = len(atoms)
        if now == prev + size and mc.move_history and mc.move_history[-1][1]:
            p = atoms.positions[-size:]
            ins_frac.append(((p.mean(0) @ icell) % 1.0) / [f_allowed, 1, 1])
            if size == 2:
                b = p[1] - p[0]
                ins_dir.append(b / np.linalg.norm(b))
        prev = now
        out[i] = (now - fw) // size
    return {"N": out}, {"ins_frac": np.array(ins_frac), "ins_dir": np.array(ins_dir)}


CHAIN = {"harmonic": chain_harmonic, "dipole": chain_dipole, "isobaric": chain_isobaric, "grand": chain_grand}
CLAUSE = {"harmonic": "canonical-harmonic", "dipole": "canonical-dipole", "isobaric": "isobaric", "grand": "grand"}


def expected(w):
    if w["kind"] == "harmonic":
        return {"E/kT": 1.5 * w["n"]}
    if w["kind"] == "dipole":
        x = w["x"]
        return {"cos": 1 / math.tanh(x) - 1 / x}
    if w["kind"] == "isobaric":
        return {"V/Vexp": 1.0, "V2/V2exp": 1.0}
    return {"N": w["lam"]}


def measure(w, seed, L, tag):
    """K chains -> per-statistic (mean, SE), pooled i.i.d. extras."""
    burn = L // 5
    means: dict = {}
    extras: dict = {}
    bins: dict = {}
    for j in range(K):
        obs, ex = CHAIN[w["kind"]](w, derive_seed("c01", seed, w["name"], tag, j), L)
        for k, x in obs.items():
            means.setdefault(k, []).append(float(np.mean(x[burn:])))
            if k == "N":
                xs = x[burn:]
                means.setdefault("N_var", []).append(float(np.var(xs)))
                for b in range(0, int(w["lam"] * 3 + 6)):
                    bins.setdefault(b, []).append(float(np.mean(xs == b)))
        for k, x in ex.items():
            if len(x):
                extras.setdefault(k, []).append(x)
    stats = {k: (float(np.mean(v)), float(np.std(v, ddof=1) / math.sqrt(K))) for k, v in means.items()}
    binstats = {b: (float(np.mean(v)), float(np.std(v, ddof=1) / math.sqrt(K))) for b, v in bins.items()}
    extras = {k: np.concatenate(v) for k, v in extras.items()}
    LAST_CHAIN_MEANS.clear()
    LAST_CHAIN_MEANS.update(means)
    return stats, binstats, extras


LAST_CHAIN_MEANS: dict = {}


def runaway(key, expected_value):
    """A chain average that has run away (non-finite, or off by more than a factor of three) in EVERY chain, all on the
    same side: the spread between such chains is as large as the deviation itself, so a z-score says nothing."""
    v = np.asarray(LAST_CHAIN_MEANS.get(key, []), dtype=float)
    if not len(v) or not expected_value > 0:
        return 0
    hi = (~np.isfinite(v)) | (v > 3 * expected_value)
    lo = np.isfinite(v) & (v < expected_value / 3)
    return 1 if hi.all() else (-1 if lo.all() else 0)


def iid_tests(extras):
    """-> {name: (p, n)} chi-square tests on pooled i.i.d. draws."""
    out = {}
    f = extras.get("ins_frac")
    if f is not None and len(f) >= 640:
        idx = np.minimum((f * 4).astype(int), 3) @ np.array([16, 4, 1])
        cnt = np.bincount(idx, minlength=64)
        out["insertion-position-uniform"] = (chi2_p(cnt, np.full(64, len(f) / 64))[1], len(f))
    d = extras.get("ins_dir")
    if d is not None and len(d) >= 800:
        ct = np.minimum(((d[:, 2] + 1) / 2 * 10).astype(int), 9)
        az = np.minimum(((np.arctan2(d[:, 1], d[:, 0]) + np.pi) / (2 * np.pi) * 8).astype(int), 7)
        cnt = np.bincount(ct * 8 + az, minlength=80)
        out["inserted-orientation-uniform"] = (chi2_p(cnt, np.full(80, len(d) / 80))[1], len(d))
    return out


def run(spec):
    from scipy.stats import poisson

    from qv import env

    env.import_quansino()
    rec = Rec(spec["name"])
    w = spec["w"]
    L = w["L"]
    clause = CLAUSE[w["kind"]]
    exp = expected(w)
    if w["kind"] == "grand":
        exp["N_var"] = w["lam"]
    try:
        stats, binstats, extras = measure(w, spec["seed"], L, "first")
    except Exception as ex:  # noqa: BLE001
        import traceback

        rec.viol(f"C01/{clause}/run-raised/{type(ex).__name__}", f"simulation raised {type(ex).__name__}: {ex}"[:300], {"workload": w["name"], "traceback": traceback.format_exc()[-600:]})
        return rec.out()
    rec.evaluations += K * L
    table = {}
    flagged = []
    resolved = False
    for k, e in exp.items():
        m, se = stats[k]
        z = (m - e) / se if se > 0 else float("inf")
        table[k] = {"expected": e, "measured": m, "se": se, "z": z}
        if 5 * se <= 0.1 * abs(e):
            resolved = True
        if abs(z) > 5:
            flagged.append(("mean:" + k, z))
        elif runaway(k, e):
            flagged.append(("runaway:" + k, float(runaway(k, e))))
    if w["kind"] == "grand":
        for b, (m, se) in binstats.items():
            p = float(poisson.pmf(b, w["lam"]))
            if p < 0.02 or se == 0:
                continue
            rec.count("poisson_bins_tested")
            z = (m - p) / se
            table[f"P(N={b})"] = {"expected": p, "measured": m, "se": se, "z": z}
            if abs(z) > 5.5:
                flagged.append((f"bin:{b}", z))
    if "accepted" in extras:
        table["acceptance"] = {"rate": float(np.mean(extras["accepted"])), "steps": int(len(extras["accepted"]))}
    iid = iid_tests(extras)
    for name, (p, n) in iid.items():
        rec.count("insertion_uniformity_tests" if "position" in name else "orientation_tests")
        table[name] = {"p": p, "n": n}
        if p < 1e-6:
            flagged.append(("iid:" + name, -1.0))
    if resolved:
        rec.count("workloads_resolved:" + clause)
        rec.case(w["name"])
    else:
        rec.count("workloads_unresolved:" + clause)
    rec.data["table"] = table
    rec.sample({"workload": w["name"], "chains": K, "steps_per_chain": L, "results": {k: {kk: (round(vv, 5) if isinstance(vv, float) else vv) for kk, vv in v.items()} for k, v in table.items()}}, cap=1)
    if flagged:
        rec.count("escalations", len(flagged))
        stats2, bins2, extras2 = measure(w, spec["seed"], 4 * L, "second")
        rec.evaluations += K * 4 * L
        iid2 = iid_tests(extras2)
        for name, z in flagged:
            kind, key = name.split(":", 1)
            if kind == "runaway":
                r2 = runaway(key, exp[key])  # LAST_CHAIN_MEANS now holds the re-measurement
                again = r2 != 0 and r2 == int(z)
                desc = f"{key}: expected {exp[key]:.5g}; every one of the {K} chains ran away ({'above 3x' if z > 0 else 'below 1/3 of'} the expected value), in the first measurement and in the re-measurement (chain means now {[float(f'{x:.3g}') for x in LAST_CHAIN_MEANS.get(key, [])[:4]]} ...)"
                vkey = f"C01/{clause}/{key.replace('/', '-over-')}/runaway"
            elif kind == "mean":
                m2, se2 = stats2[key]
                z2 = (m2 - exp[key]) / se2
                again = abs(z2) > 5 and (z2 > 0) == (z > 0)
                desc = f"{key}: expected {exp[key]:.5g}, measured {stats[key][0]:.5g} +- {stats[key][1]:.2g} (z={z:.1f}), re-measured {m2:.5g} +- {se2:.2g} (z={z2:.1f})"
                vkey = f"C01/{clause}/{key.replace('/', '-over-')}/{w.get('prop') or w.get('op') or ('molecular' if w.get('mol') else 'atomic')}"
            elif kind == "bin":
                b = int(key)
                p = float(poisson.pmf(b, w["lam"]))
                m2, se2 = bins2[b]
                z2 = (m2 - p) / se2 if se2 > 0 else float("inf")
                again = abs(z2) > 5.5 and (z2 > 0) == (z > 0)
                desc = f"P(N={b}): Poisson {p:.4f}, measured {binstats[b][0]:.4f} (z={z:.1f}), re-measured {m2:.4f} (z={z2:.1f})"
                vkey = f"C01/{clause}/particle-number-distribution/{'molecular' if w.get('mol') else 'atomic'}"
            else:
                p2 = iid2.get(key, (1.0, 0))[0]
                again = p2 < 1e-6
                desc = f"{key}: chi-square p={iid[key][0]:.2g} (n={iid[key][1]}), re-measured p={p2:.2g}"
                vkey = f"C01/{clause}/{key}/{'molecular' if w.get('mol') else 'atomic'}"
            if again:
                rec.viol(vkey, f"{w['name']}: {desc}", {"workload": w["name"], "chains": K, "steps": [L, 4 * L]})
    return rec.out()
