"""C10 - proposal operations stay within their advertised geometry and are symmetric.

Monitors: contracts wrapped around the real `calculate` of every shipped operation class
(class attribute, so calls made from inside composite operations and moves are seen too):
deterministic geometric post-conditions on every single result, an RNG-shadow replay for
composite operations (sum of parts, generator consumption), and statistical symmetry
tests (proposal vs its inverse) and uniformity tests on i.i.d. draws, with one
re-measurement before a statistical alarm.
Bounds are judged against the step size each operation was constructed with (recorded at
the constructor), groups include atoms outside the cell and straddling its faces, cells
are fully, partially or not periodic.
One operation object is also used repeatedly on one atoms object and one group of rows while masses, species and
neighbours are edited in place; masks are also assigned or edited after construction (each operation is judged against
the mask the workload gave that very object; operations built without a mask before and after a sibling's mask was
set are called again and must still behave as built).
Bulk shards put millions of Ball / Box / Sphere proposals through the bound contracts (rare coincidences of draws).
"""
from __future__ import annotations

import itertools

import numpy as np

from qv.lib import Rec, rng_for, same_state, shadow

PACKAGE_RAISE_IS_VIOLATION = True  # every shard input is built inside the statement's domain (see qv/shard.py)
LEVEL = "exploration"
RULE = (
    "one evaluation = one calculate() call of a shipped operation on a seeded (step size / max strain, cell, group geometry and masses, mask, generator state); "
    "distinct by (operation, step-size decade, cell class, group size, mask pattern); non-trivial = every call with step size > 0 (the result is a random draw)"
)
ASSUMPTIONS = [
    "geometric tolerances 1e-12 relative (norms, determinant), 1e-9 absolute (Angstrom) for rigid-body distances and centre of mass",
    "'scalar times identity' and 'volume preserving' are judged with the default mask only; with other masks only 'identity in masked-out components' is judged",
    "symmetry of a proposal with its inverse is tested on i.i.d. draws: displacement d vs -d, rotation vector vs its negative, log of the deformation gradient vs its negative; "
    "sign test |z|>5 or two-sample KS p<1e-6 flags; a flag is re-measured once with 4x the draws and is a violation only if flagged again",
]
REQUIRED = {"bulk_draws:Ball": 1500000, "bulk_draws:Box": 1500000, "bulk_draws:Sphere": 1500000, "calls_on_atoms_edited_in_place": 200, "masks_assigned_after_construction": 300, "default_built_masks_edited_in_place": 100, "bystander_calls_after_a_sibling_mask_was_set": 1000, "calls:Ball": 1000, "calls:Box": 1000, "calls:Sphere": 1000, "calls:Translation": 1000, "calls:Rotation": 500, "calls:TranslationRotation": 500, "calls:CompositeOperation": 300, "calls:IsotropicDeformation": 500, "calls:AnisotropicDeformation": 500, "calls:ShapeDeformation": 500, "symmetry_tests": 20, "uniformity_tests": 2, "masked_calls": 200}
SHARD_TIMEOUT = {"quick": 900, "thorough": 3000}

ORIG: dict = {}
STATE = {"replaying": False}


def plan(tier, seed):
    big = tier != "quick"
    n = 60000 if not big else 600000
    nrot = 16000 if not big else 120000
    specs = []
    for op in ("Ball", "Box", "Sphere"):
        specs.append({"name": f"sym-{op}", "mode": "disp", "op": op, "n": n, "seed": seed})
    # volume for the bounds alone: a violation that needs a rare coincidence of draws (a few per million proposals) shows
    # only where millions of proposals are looked at; every call goes through the same contract
    for op in ("Ball", "Box", "Sphere"):
        for j in range(4 if not big else 8):
            specs.append({"name": f"bulk-{op}{j}", "mode": "bulk", "op": op, "n": 450000 if not big else 1500000, "seed": seed, "j": j})
    for j in range(4):
        specs.append({"name": f"sym-Rotation{j}", "mode": "rot", "op": "Rotation", "n": nrot, "seed": seed, "j": j})
    specs.append({"name": "sym-TranslationRotation", "mode": "rot", "op": "TranslationRotation", "n": nrot, "seed": seed, "j": 9})
    specs.append({"name": "translation", "mode": "trans", "n": n, "seed": seed})
    for op in ("IsotropicDeformation", "AnisotropicDeformation", "ShapeDeformation"):
        specs.append({"name": f"sym-{op}", "mode": "deform", "op": op, "n": n // 2, "seed": seed})
    specs.append({"name": "masks", "mode": "masks", "n": 4 if not big else 40, "seed": seed})
    for j in range(2 if not big else 6):
        specs.append({"name": f"composite{j}", "mode": "comp", "n": 400 if not big else 3000, "seed": seed, "j": j})
    for j in range(3 if not big else 8):
        specs.append({"name": f"hostile{j}", "mode": "hostile", "n": 1500 if not big else 12000, "seed": seed, "j": j})
    return specs


# ----------------------------------------------------------------------------- contracts
def install(rec: Rec):
    import quansino.operations.cell as oc
    import quansino.operations.displacement as od
    from quansino.operations.composite import CompositeOperation

    record_asked_steps()
    classes = [od.Ball, od.Box, od.Sphere, od.Translation, od.Rotation, od.TranslationRotation, oc.IsotropicDeformation, oc.AnisotropicDeformation, oc.ShapeDeformation, CompositeOperation]
    for cls in classes:
        if "calculate" not in cls.__dict__:
            continue
        ORIG[cls] = cls.__dict__["calculate"]
        cls.calculate = make_wrapper(rec, cls, ORIG[cls])


def make_wrapper(rec, cls, orig):
    name = cls.__name__

    def calculate(self, context, *a, **k):
        if STATE["replaying"]:
            return orig(self, context, *a, **k)
        pre = PRE.get(name, lambda *_: None)(self, context)
        out = orig(self, context, *a, **k)
        rec.count("calls:" + name)
        rec.evaluations += 1
        try:
            POST[name](rec, self, context, out, pre)
        except AssertionError as ex:  # a monitor's own malfunction must not look like a verdict
            rec.inconclusive.append(f"monitor error in {name}: {ex}")
        return out

    return calculate


ASKED_STEP: dict = {}  # id(operation) -> (operation, step size its constructor was given)


def record_asked_steps():
    """The bounds are judged against the step size the operation was *constructed with* (recorded at the constructor),
    not against what the object says about itself afterwards; nothing in this check re-assigns step_size later."""
    import inspect

    import quansino.operations.displacement as od

    base = od.DisplacementOperation
    orig = base.__dict__["__init__"]
    sig = inspect.signature(orig)

    def __init__(self, *a, **k):
        orig(self, *a, **k)
        try:
            ASKED_STEP[id(self)] = (self, sig.bind(self, *a, **k).arguments.get("step_size", sig.parameters["step_size"].default))
        except Exception:  # noqa: BLE001  (signature changed: fall back to the attribute)
            pass

    base.__init__ = __init__


def step_of(op):
    it = ASKED_STEP.get(id(op))
    if it is not None and it[0] is op:
        return it[1]
    return op.step_size


def wit_disp(op, ctx, out):
    return {"operation": type(op).__name__, "step_size": getattr(op, "step_size", None), "result": np.asarray(out), "group": list(map(int, np.atleast_1d(ctx._moving_indices)))[:8]}


def post_ball(rec, op, ctx, out, pre):
    out = np.asarray(out)
    s = step_of(op)
    if out.shape != (1, 3):
        rec.viol("C10/Ball/shape", f"Ball returned shape {out.shape}", wit_disp(op, ctx, out))
    elif not np.linalg.norm(out) <= abs(s) * (1 + 1e-12):
        rec.viol("C10/Ball/norm-exceeds-step", f"|d|={np.linalg.norm(out)} > step size {s}", wit_disp(op, ctx, out))


def post_sphere(rec, op, ctx, out, pre):
    out = np.asarray(out)
    s = step_of(op)
    if out.shape != (1, 3):
        rec.viol("C10/Sphere/shape", f"Sphere returned shape {out.shape}", wit_disp(op, ctx, out))
    elif abs(np.linalg.norm(out) - abs(s)) > 1e-12 * abs(s):
        rec.viol("C10/Sphere/norm-not-step", f"|d|={np.linalg.norm(out)} != step size {s}", wit_disp(op, ctx, out))


def post_box(rec, op, ctx, out, pre):
    out = np.asarray(out)
    s = step_of(op)
    if out.shape != (1, 3):
        rec.viol("C10/Box/shape", f"Box returned shape {out.shape}", wit_disp(op, ctx, out))
    elif np.any(np.abs(out) > abs(s)):
        rec.viol("C10/Box/component-exceeds-step", f"component {np.abs(out).max()} > step size {s}", wit_disp(op, ctx, out))


def pre_group(op, ctx):
    idx = np.atleast_1d(ctx._moving_indices)
    return {"pos": ctx.atoms.positions[idx].copy(), "masses": ctx.atoms.get_masses()[idx].copy(), "cell": ctx.atoms.cell.array.copy()}


def rigid_check(rec, name, op, ctx, out, pre, keep_com):
    out = np.asarray(out, dtype=float)
    p0 = pre["pos"]
    n = len(p0)
    disp = np.broadcast_to(out, (n, 3)) if out.shape in ((1, 3), (3,)) else out
    if disp.shape != (n, 3):
        rec.viol(f"C10/{name}/shape", f"{name} returned shape {out.shape} for a group of {n}", wit_disp(op, ctx, out))
        return None
    p1 = p0 + disp
    if n > 1:
        d0 = np.linalg.norm(p0[:, None] - p0[None, :], axis=-1)
        d1 = np.linalg.norm(p1[:, None] - p1[None, :], axis=-1)
        if np.abs(d0 - d1).max() > 1e-9 * max(1.0, d0.max()):
            rec.viol(f"C10/{name}/not-rigid", f"pair distances changed by {np.abs(d0 - d1).max():.3g}", wit_disp(op, ctx, out))
    if keep_com:
        m = pre["masses"]
        shift = (m[:, None] * disp).sum(0) / m.sum()
        scale = max(1.0, np.abs(p0).max())
        if np.abs(shift).max() > 1e-9 * scale:
            kind = "centroid-kept-instead" if np.abs(disp.mean(0)).max() < 1e-9 * scale else "moved"
            rec.viol(f"C10/{name}/centre-of-mass-{kind}", f"centre of mass moved by {shift}", wit_disp(op, ctx, out))
    return p1


def post_translation(rec, op, ctx, out, pre):
    out = np.asarray(out, dtype=float)
    if out.shape not in ((1, 3),):
        rec.viol("C10/Translation/not-common-shift", f"Translation returned shape {out.shape}: not one common shift", wit_disp(op, ctx, out))
        return
    cen = pre["pos"].mean(0) + out[0]
    frac = np.linalg.solve(pre["cell"].T, cen)
    if np.any(frac < -1e-9) or np.any(frac >= 1 + 1e-9):
        rec.viol("C10/Translation/centroid-outside-cell", f"centroid lands at fractional {frac}", wit_disp(op, ctx, out))
    COLLECT.setdefault("trans_frac", []).append(frac)


def post_rotation(rec, op, ctx, out, pre):
    p1 = rigid_check(rec, "Rotation", op, ctx, out, pre, keep_com=True)
    if p1 is not None and COLLECT.get("want_rot"):
        COLLECT.setdefault("rot", []).append((pre["pos"], p1, pre["masses"]))


def post_transrot(rec, op, ctx, out, pre):
    p1 = rigid_check(rec, "TranslationRotation", op, ctx, out, pre, keep_com=False)
    if p1 is not None:
        cen = p1.mean(0)
        # rotation about the centre of mass shifts the centroid: uniform only modulo the lattice
        COLLECT.setdefault("tr_frac", []).append(np.linalg.solve(pre["cell"].T, cen) % 1.0)
        if COLLECT.get("want_rot"):
            COLLECT.setdefault("rot", []).append((pre["pos"], p1, pre["masses"]))


INTENDED_MASK: dict[int, tuple] = {}


def intend_mask(op, mask):
    """The workload's own record of the mask it gave this operation (None: built without one, never edited)."""
    INTENDED_MASK[id(op)] = (op, None if mask is None else np.array(mask, dtype=bool, copy=True))
    return op


def mask_of(op):
    """The mask the operation is judged against: what the workload assigned to this object, never what a sibling did."""
    if id(op) in INTENDED_MASK and INTENDED_MASK[id(op)][0] is op:
        m = INTENDED_MASK[id(op)][1]
        return np.ones((3, 3), dtype=bool) if m is None else m
    return np.asarray(op.mask, dtype=bool)


def default_mask(op):
    m = mask_of(op)
    return m.shape == (3, 3) and bool(m.all())


def wit_def(op, out):
    return {"operation": type(op).__name__, "max_value": op.max_value, "mask": np.asarray(op.mask).astype(int), "mask_given_by_the_workload": mask_of(op).astype(int), "gradient": np.asarray(out)}


def post_deform(rec, op, ctx, out, pre):
    name = type(op).__name__
    F = np.asarray(out, dtype=float)
    if F.shape != (3, 3) or not np.all(np.isfinite(F)):
        rec.viol(f"C10/{name}/shape", f"deformation gradient has shape {F.shape} / non-finite entries", wit_def(op, out))
        return
    mask = mask_of(op)
    eye = np.eye(3)
    if not default_mask(op):
        rec.count("masked_calls")
        if np.abs(F[~mask] - eye[~mask]).max(initial=0.0) > 0:
            rec.viol(f"C10/{name}/masked-component-not-identity", "a masked-out component differs from the identity's", wit_def(op, out))
        return
    if name == "IsotropicDeformation":
        if np.abs(F - np.diag(np.diag(F))).max() > 0 or np.ptp(np.diag(F)) > 1e-12 * abs(F[0, 0]):
            rec.viol("C10/IsotropicDeformation/not-scalar-identity", "gradient is not a scalar times the identity", wit_def(op, out))
    if name == "ShapeDeformation":
        if abs(np.linalg.det(F) - 1) > 1e-12 * max(1.0, np.abs(F).max() ** 3):
            rec.viol("C10/ShapeDeformation/volume-changes", f"det F = {np.linalg.det(F)!r}", wit_def(op, out))
    if np.abs(F - F.T).max() > 1e-12 * np.abs(F).max():
        rec.viol(f"C10/{name}/not-symmetric", "gradient with default mask is not symmetric", wit_def(op, out))
    elif np.linalg.eigvalsh(0.5 * (F + F.T)).min() <= 0:
        rec.viol(f"C10/{name}/not-positive-definite", "gradient with default mask is not positive definite", wit_def(op, out))
    if COLLECT.get("want_def"):
        w, v = np.linalg.eigh(0.5 * (F + F.T))
        if w.min() > 0:
            L = (v * np.log(w)) @ v.T
            COLLECT.setdefault("logF", []).append(L[np.triu_indices(3)])


def pre_composite(op, ctx):
    return {"shadow": shadow(ctx.rng)}


def post_composite(rec, op, ctx, out, pre):
    sh = pre["shadow"]

    class Clone:
        pass

    c2 = Clone()
    for slot in ("atoms", "_moving_indices", "temperature"):
        if hasattr(ctx, slot):
            setattr(c2, slot, getattr(ctx, slot))
    c2.rng = sh
    STATE["replaying"] = True
    try:
        parts = [op_i.calculate(c2) for op_i in op.operations]
    finally:
        STATE["replaying"] = False
    if not parts:
        return
    exp = parts[0]
    for p in parts[1:]:
        exp = exp + p
    out = np.asarray(out, dtype=float)
    exp = np.asarray(exp, dtype=float)
    w = {"operations": [type(o).__name__ for o in op.operations], "result": out, "sum_of_parts": exp}
    if out.shape != exp.shape or np.abs(out - exp).max() > 1e-12 * max(1.0, np.abs(exp).max()):
        rec.viol("C10/CompositeOperation/not-sum-of-parts", "composite result differs from the sum of its parts' results for the same generator state", w)
    elif not same_state(ctx.rng, sh):
        rec.viol("C10/CompositeOperation/generator-consumption", "composite consumed a different number of draws than its parts", w)


PRE = {"Translation": pre_group, "Rotation": pre_group, "TranslationRotation": pre_group, "CompositeOperation": pre_composite}
POST = {
    "Ball": post_ball,
    "Sphere": post_sphere,
    "Box": post_box,
    "Translation": post_translation,
    "Rotation": post_rotation,
    "TranslationRotation": post_transrot,
    "IsotropicDeformation": post_deform,
    "AnisotropicDeformation": post_deform,
    "ShapeDeformation": post_deform,
    "CompositeOperation": post_composite,
}
COLLECT: dict = {}


# ----------------------------------------------------------------------------- statistics
def symmetry_flags(x, labels):
    """x: (n,k) i.i.d. draws whose law should be invariant under x -> -x."""
    from scipy.stats import ks_2samp

    flags = []
    n = len(x)
    for j, lab in enumerate(labels):
        col = x[:, j]
        nz = col[col != 0]
        if len(nz) < 200:
            continue
        pos = int((nz > 0).sum())
        z = (pos - len(nz) / 2) / np.sqrt(len(nz) / 4)
        if abs(z) > 5:
            flags.append((lab, "sign", float(z)))
            continue
        a, b = nz[nz > 0], -nz[nz < 0]
        p = ks_2samp(a, b).pvalue
        if p < 1e-6:
            flags.append((lab, "ks", float(p)))
    # joint sign pattern (octants) for the first three columns
    if x.shape[1] >= 3:
        s = (x[:, :3] > 0).astype(int) @ np.array([4, 2, 1])
        ok = np.all(x[:, :3] != 0, axis=1)
        cnt = np.bincount(s[ok], minlength=8)
        # x -> -x maps octant o to 7-o: paired counts must agree
        for o in range(4):
            tot = cnt[o] + cnt[7 - o]
            if tot >= 200:
                z = (cnt[o] - tot / 2) / np.sqrt(tot / 4)
                if abs(z) > 5:
                    flags.append((f"octant{o}", "sign", float(z)))
    return flags, n


def decide_symmetry(rec, key, draw, labels, n, what):
    """draw(m) -> (m,k) array of i.i.d. draws.  Re-measure once with 4x before alarming."""
    x = draw(n)
    rec.count("symmetry_tests")
    flags, _ = symmetry_flags(x, labels)
    if not flags:
        return x
    rec.count("escalations")
    x2 = draw(4 * n)
    flags2, _ = symmetry_flags(x2, labels)
    f2 = {(a, b): c for a, b, c in flags2}
    for lab, kind, val in flags:
        v2 = f2.get((lab, kind))
        if v2 is not None and (kind == "ks" or (v2 > 0) == (val > 0)):
            rec.viol(key, f"{what}: proposal is not as likely as its inverse ({lab}: {kind} statistic {val:.3g}, re-measured {v2:.3g})", {"component": lab, "test": kind, "first": val, "second": v2, "draws": [n, 4 * n]})
            return x
    return x


def uniform_flag(frac, bins=4):
    from qv.lib import chi2_p

    f = np.asarray(frac)
    f = f[(f >= 0).all(1) & (f < 1).all(1)]
    idx = np.minimum((f * bins).astype(int), bins - 1) @ np.array([bins * bins, bins, 1])
    cnt = np.bincount(idx, minlength=bins**3)
    stat, p = chi2_p(cnt, np.full(bins**3, len(f) / bins**3))
    return p, len(f)


# ----------------------------------------------------------------------------- workloads
def make_ctx(rng, natoms_group, cellkind="cubic", n_other=2):
    from ase import Atoms

    from quansino.mc.contexts import DisplacementContext

    n = natoms_group + n_other
    if cellkind == "cubic":
        cell = np.eye(3) * rng.uniform(5, 12)
    elif cellkind == "needle":
        cell = np.diag([rng.uniform(2, 4), rng.uniform(2, 4), rng.uniform(30, 60)])
    else:
        cell = np.diag(rng.uniform(5, 12, 3)) + np.tril(rng.uniform(-3, 3, (3, 3)), -1)
    syms = [["H", "C", "O", "Cu", "Ar", "Au"][int(i)] for i in rng.integers(0, 6, n)]
    pos = rng.uniform(0, 1, (n, 3)) @ cell
    where = rng.random()
    if where < 0.2:  # atoms that have drifted out of the cell, each by its own lattice vector (groups straddle faces)
        pos = pos + rng.integers(-2, 3, (n, 3)) @ cell
    elif where < 0.35:  # the whole system shifted off the cell by a non-lattice vector
        pos = pos + rng.uniform(-1.5, 1.5, 3) @ cell
    pbc = [True, True, (True, True, False), (False, True, False), False][int(rng.integers(0, 5))]
    atoms = Atoms(syms, positions=pos, cell=cell, pbc=pbc)
    if rng.random() < 0.3:
        atoms.set_masses(rng.uniform(1, 200, n))
    ctx = DisplacementContext(atoms, np.random.Generator(np.random.PCG64(int(rng.integers(1, 2**62)))))
    idx = rng.permutation(n)[:natoms_group]
    ctx._moving_indices = np.sort(idx) if rng.random() < 0.5 else idx
    return ctx


def run_bulk(spec, rec):
    import quansino.operations.displacement as od

    rng = rng_for("C10b", spec["seed"], spec["op"], spec["j"])
    cls = getattr(od, spec["op"])
    steps = (1e-3, 0.05, 1.0, 10.0)
    for k, step in enumerate(steps):
        ctx = make_ctx(rng, 1)
        op = cls(step)
        rec.case(spec["op"], "bulk", step)
        for _ in range(spec["n"] // len(steps)):
            op.calculate(ctx)  # judged by the contract around calculate
        rec.count(f"bulk_draws:{spec['op']}", spec["n"] // len(steps))


def run_disp(spec, rec):
    import quansino.operations.displacement as od

    rng = rng_for("C10d", spec["seed"], spec["op"])
    cls = getattr(od, spec["op"])
    for step in (1e-3, 0.1, 1.0, 10.0):
        ctx = make_ctx(rng, 1)
        op = cls(step)
        rec.case(spec["op"], step)

        def draw(m, op=op, ctx=ctx):
            return np.array([op.calculate(ctx)[0] for _ in range(m)])

        x = decide_symmetry(rec, f"C10/{spec['op']}/asymmetric", draw, ["x", "y", "z"], spec["n"] // 4, f"{spec['op']}({step})")
        rec.sample({"operation": spec["op"], "step_size": step, "draw": x[0]}, cap=1)


def rotvecs(pairs):
    """Rotation vector of each rigid motion (Kabsch on mass-centred coordinates)."""
    from scipy.spatial.transform import Rotation as R

    out = []
    for p0, p1, m in pairs:
        if len(p0) < 3:
            continue
        c0 = p0 - (m[:, None] * p0).sum(0) / m.sum()
        c1 = p1 - (m[:, None] * p1).sum(0) / m.sum()
        H = c0.T @ c1
        U, S, Vt = np.linalg.svd(H)
        if S[1] < 1e-6:
            continue  # collinear group: rotation not identifiable
        d = np.sign(np.linalg.det(Vt.T @ U.T))
        Rm = Vt.T @ np.diag([1, 1, d]) @ U.T
        out.append(R.from_matrix(Rm).as_rotvec())
    return np.array(out)


def run_rot(spec, rec):
    import quansino.operations.displacement as od

    rng = rng_for("C10r", spec["seed"], spec["op"], spec["j"])
    cls = getattr(od, spec["op"])
    op = cls()
    COLLECT["want_rot"] = True
    cellkinds = ["cubic", "triclinic", "needle"]

    def draw(m):
        COLLECT["rot"] = []
        per = 200
        for b in range(max(1, m // per)):
            ctx = make_ctx(rng, int(rng.integers(3, 9)), cellkinds[b % 3])
            rec.case(spec["op"], cellkinds[b % 3], len(ctx._moving_indices))
            for _ in range(per):
                op.calculate(ctx)
        rv = rotvecs(COLLECT["rot"])
        COLLECT["rot"] = []
        return rv

    x = decide_symmetry(rec, f"C10/{spec['op']}/asymmetric", draw, ["rx", "ry", "rz"], spec["n"], spec["op"])
    if len(x):
        ang = np.linalg.norm(x, axis=1)
        rec.data["rot_angle_max_deg"] = float(np.degrees(ang.max()))
        rec.sample({"operation": spec["op"], "rotation_vector_sample": x[0], "max_angle_deg": float(np.degrees(ang.max()))}, cap=1)
    # small groups (1 and 2 atoms): deterministic contracts only
    for _ in range(200):
        ctx = make_ctx(rng, int(rng.integers(1, 3)), "triclinic")
        op.calculate(ctx)
    # one operation object used again and again on ONE atoms object and ONE group of rows, while the atoms are edited in
    # place in between (masses re-assigned, species changed, other atoms deleted so that other atoms sit in those rows):
    # the centre of mass that must be kept is that of the atoms as they are at the time of the call
    for _ in range(60):
        ctx = make_ctx(rng, int(rng.integers(2, 6)), "triclinic", n_other=4)
        keep_rows = np.array(ctx._moving_indices)
        for k_ in range(6):
            op.calculate(ctx)
            rec.count("calls_on_atoms_edited_in_place")
            a_ = ctx.atoms
            how = (k_ + _) % 3
            if how == 0:
                a_.set_masses(rng.uniform(1, 200, len(a_)))
            elif how == 1:
                syms_ = a_.get_chemical_symbols()
                a_.set_chemical_symbols([["H", "C", "O", "Cu", "Au"][int(i)] for i in rng.integers(0, 5, len(syms_))])
                a_.set_masses(None)
            elif len(a_) > len(keep_rows) + 1 and keep_rows.max() < len(a_) - 1:
                del a_[[int(i) for i in range(len(a_)) if i not in set(keep_rows.tolist())][:1]]
                keep_rows = np.array([r if r < len(a_) else len(a_) - 1 for r in keep_rows])
                ctx._moving_indices = np.unique(keep_rows)
    if spec["op"] == "TranslationRotation" and COLLECT.get("tr_frac"):
        judge_uniform(rec, "TranslationRotation", "tr_frac")


def judge_uniform(rec, name, key):
    fr = np.array(COLLECT.get(key, []))
    if len(fr) < 2000:
        return
    rec.count("uniformity_tests")
    p, n = uniform_flag(fr)
    rec.data[f"uniform_p_{name}"] = p
    if p < 1e-6:
        # re-measure on the second half only if flagged on the first: here use split halves
        p1, _ = uniform_flag(fr[: len(fr) // 2])
        p2, _ = uniform_flag(fr[len(fr) // 2 :])
        if p1 < 1e-4 and p2 < 1e-4:
            rec.viol(f"C10/{name}/centroid-not-uniform", f"centroid positions are not uniform in the cell (chi2 p={p:.2g}; halves {p1:.2g}, {p2:.2g}; n={n})", {"n": n})
        else:
            rec.count("escalations")


def run_trans(spec, rec):
    import quansino.operations.displacement as od

    rng = rng_for("C10t", spec["seed"])
    op = od.Translation()
    per = 500
    for b in range(spec["n"] // per):
        kind = ["cubic", "triclinic", "needle"][b % 3]
        ctx = make_ctx(rng, int(rng.integers(1, 9)), kind)
        rec.case("Translation", kind, len(ctx._moving_indices))
        for _ in range(per):
            op.calculate(ctx)
    judge_uniform(rec, "Translation", "trans_frac")
    rec.sample({"operation": "Translation", "fractional_centroid_sample": COLLECT["trans_frac"][0]}, cap=1)


def run_deform(spec, rec):
    import quansino.operations.cell as oc

    rng = rng_for("C10f", spec["seed"], spec["op"])
    cls = getattr(oc, spec["op"])
    COLLECT["want_def"] = True
    labels = ["xx", "xy", "xz", "yy", "yz", "zz"]
    for mv in (1e-3, 0.05, 0.5, 2.0):
        ctx = make_ctx(rng, 1)
        op = intend_mask(cls(mv), None)
        rec.case(spec["op"], mv)

        def draw(m, op=op, ctx=ctx):
            COLLECT["logF"] = []
            for _ in range(m):
                op.calculate(ctx)
            out = np.array(COLLECT["logF"])
            COLLECT["logF"] = []
            return out

        x = decide_symmetry(rec, f"C10/{spec['op']}/asymmetric", draw, labels, spec["n"] // 4, f"{spec['op']}({mv})")
        rec.sample({"operation": spec["op"], "max_value": mv, "log_gradient_upper": x[0] if len(x) else None}, cap=1)


def run_masks(spec, rec):
    import quansino.operations.cell as oc

    rng = rng_for("C10m", spec["seed"])
    ctx = make_ctx(rng, 1)
    bystanders = {c.__name__: intend_mask(c(0.05), None) for c in (oc.IsotropicDeformation, oc.AnisotropicDeformation, oc.ShapeDeformation)}
    for bits in itertools.product([False, True], repeat=9):
        mask = np.array(bits).reshape(3, 3)
        for cls in (oc.IsotropicDeformation, oc.AnisotropicDeformation, oc.ShapeDeformation):
            how = int(rng.integers(0, 4))
            mv_ = float(rng.choice([1e-3, 0.05, 0.7]))
            if how == 0:
                op = cls(mv_, mask=mask)
            elif how == 1:
                # built with the default mask, the documented `mask` attribute assigned afterwards (freeze a direction
                # of a slab once the move is set up)
                op = cls(mv_)
                op.mask = mask.copy()
                rec.count("masks_assigned_after_construction")
            elif how == 2:
                op = cls(mv_, mask=np.ones((3, 3), dtype=bool))
                op.mask[...] = mask  # edited in place
                rec.count("masks_assigned_after_construction")
            else:
                op = cls(mv_)
                op.mask[...] = mask  # built without a mask, its own mask edited in place
                rec.count("masks_assigned_after_construction")
                rec.count("default_built_masks_edited_in_place")
            intend_mask(op, mask)
            rec.case(cls.__name__, "mask", int(mask.sum()), bool((mask == mask.T).all()))
            for _ in range(spec["n"]):
                op.calculate(ctx)
            # bystanders: operations built without a mask before and after this one stay what they were built as
            late = intend_mask(cls(mv_), None)
            for b in (bystanders[cls.__name__], late):
                b.calculate(ctx)
                rec.count("bystander_calls_after_a_sibling_mask_was_set")
    rec.sample({"masks": "all 512 boolean 3x3 masks", "draws_per_mask_and_operation": spec["n"]}, cap=1)


def run_comp(spec, rec):
    import quansino.operations.cell as oc
    import quansino.operations.displacement as od

    rng = rng_for("C10c", spec["seed"], spec["j"])
    for i in range(spec["n"]):
        k = int(rng.integers(1, 5))
        ctx = make_ctx(rng, int(rng.integers(1, 6)), ["cubic", "triclinic"][i % 2])
        if rng.random() < 0.8:
            pool = [lambda: od.Ball(float(rng.uniform(0.01, 2))), lambda: od.Box(float(rng.uniform(0.01, 2))), lambda: od.Sphere(float(rng.uniform(0.01, 2))), od.Translation, od.Rotation, od.TranslationRotation]
        else:
            pool = [lambda: oc.IsotropicDeformation(0.05), lambda: oc.AnisotropicDeformation(0.05), lambda: oc.ShapeDeformation(0.05)]
        ops = [pool[int(rng.integers(len(pool)))]() for _ in range(k)]
        comp = ops[0]
        if k == 1:
            comp = ops[0] * int(rng.integers(1, 4))
        else:
            for o in ops[1:]:
                comp = comp + o
            if rng.random() < 0.3:
                comp = comp * 2
        rec.case("composite", tuple(type(o).__name__ for o in comp.operations))
        for _ in range(3):
            try:
                comp.calculate(ctx)
            except Exception as ex:  # noqa: BLE001
                rec.viol(f"C10/CompositeOperation/raised/{type(ex).__name__}", f"composite calculate raised {ex}", {"operations": [type(o).__name__ for o in comp.operations]})
                break
    rec.sample({"composite": [type(o).__name__ for o in comp.operations]}, cap=1)


def run_hostile(spec, rec):
    """Deterministic contracts over hostile parameter corners (no statistics)."""
    import quansino.operations.cell as oc
    import quansino.operations.displacement as od

    rng = rng_for("C10h", spec["seed"], spec["j"])
    for i in range(spec["n"]):
        kind = ["cubic", "triclinic", "needle"][i % 3]
        ctx = make_ctx(rng, int(rng.integers(1, 9)), kind, n_other=int(rng.integers(0, 4)))
        step = float(10 ** rng.uniform(-6, 3))
        ops = [od.Ball(step), od.Box(step), od.Sphere(step), od.Translation(), od.Rotation(), od.TranslationRotation(), oc.IsotropicDeformation(min(step, 3.0)), oc.AnisotropicDeformation(min(step, 3.0)), oc.ShapeDeformation(min(step, 3.0))]
        for op in ops:
            rec.case(type(op).__name__, int(np.floor(np.log10(step))), kind, len(ctx._moving_indices))
            try:
                op.calculate(ctx)
            except Exception as ex:  # noqa: BLE001
                rec.viol(f"C10/{type(op).__name__}/raised/{type(ex).__name__}", f"calculate raised {ex}", {"step": step, "cell": kind})
    judge_uniform(rec, "Translation", "trans_frac")


def run(spec):
    from qv import env

    env.import_quansino()
    rec = Rec(spec["name"])
    install(rec)
    {"disp": run_disp, "bulk": run_bulk, "rot": run_rot, "trans": run_trans, "deform": run_deform, "masks": run_masks, "comp": run_comp, "hostile": run_hostile}[spec["mode"]](spec, rec)
    return rec.out()
