"""C11 - a displacement move moves only the chosen particle.

Monitors: contracts wrapped around the real `DisplacementMove.__call__` and
`CompositeDisplacementMove.__call__` (class attributes) plus a recorder on every shipped
operation's `calculate`, so the oracle knows which single operation result the move was
given.  Post-conditions compare positions before/after row by row against the label
array: changed rows must be exactly the rows of one non-negative label, moved by the
recorded result; a reported failure must leave positions bitwise unchanged; composites
must not repeat a particle, must move min(n, eligible) particles absent vetoes and must
report the number of distinct particles that really moved.
Elements of composites are pre-selected (same target on several elements, or a later
element only), and the failure clause is also judged under FixCom, where a vetoed
attempt has shifted every atom.
Labels also come as packed 64-bit ids, in unsigned and narrow integer dtypes, as plain lists, and are re-assigned on
live moves through set_labels (with a fresh array, or with the user's own array edited in place).
Every move is judged against the labelling the workload gave that object (not the one the object holds); a bystander move
built from the same labelling is called again after its sibling was re-labelled.
Composites are also written with a single move on the left of a composite; whatever class + and * hand back is judged
by the composite clauses.
Composites also get a member whose labelling covers only some of the particles: no atom may be displaced by two members.
"""
from __future__ import annotations

import numpy as np

from qv.lib import Rec, rng_for

PACKAGE_RAISE_IS_VIOLATION = True  # every shard input is built inside the statement's domain (see qv/shard.py)
LEVEL = "exploration"
RULE = (
    "one evaluation = one call of a (composite) displacement move on a seeded (label array, operation, composite size n, pre-selected or random target, "
    "check_move veto schedule, generator state); distinct by (labeling pattern, operation, n, target mode, veto mode, outcome); non-trivial when at least one "
    "non-negative label exists and at least one other atom or label is present"
)
ASSUMPTIONS = [
    "no constraint on the atoms (C12 covers constraints); positions compared bitwise for untouched rows and to 1e-12 relative for moved rows",
    "composite clauses are judged for composites whose elements share one labeling (m*n and m+m' over equal label arrays)",
    "pre-selected targets are existing non-negative labels",
]
REQUIRED = {"composite_calls_with_different_labellings": 100, "composites_built_with_a_single_move_on_the_left": 100, "relabelled_live_moves": 100, "bystander_calls_after_a_sibling_was_relabelled": 100, "single_fail_veto_under_constraint": 100, "composite_calls_with_preselected_elements": 300, "single_calls": 3000, "single_success": 1500, "single_fail_no_eligible": 100, "single_fail_veto": 100, "composite_calls": 1500, "composite_partial": 100, "preselected_calls": 300, "molecule_moves": 500, "negative_label_rows_watched": 1000}
SHARD_TIMEOUT = {"quick": 900, "thorough": 3000}

CALC_LOG: list = []
INNER: list = []
STATE = {"depth": 0}


def plan(tier, seed):
    n = 16
    per = 2000 if tier == "quick" else 20000
    return [{"name": f"w{j}", "j": j, "seed": seed, "cases": per} for j in range(n)]


def install(rec: Rec):
    import quansino.operations.displacement as od
    from quansino.moves.displacement import CompositeDisplacementMove, DisplacementMove
    from quansino.operations.composite import CompositeOperation

    for cls in (od.Ball, od.Box, od.Sphere, od.Translation, od.Rotation, od.TranslationRotation, CompositeOperation):
        orig = cls.__dict__["calculate"]

        def calc(self, context, *a, _orig=orig, **k):
            STATE["depth"] += 1
            try:
                out = _orig(self, context, *a, **k)
            finally:
                STATE["depth"] -= 1
            if STATE["depth"] == 0:
                CALC_LOG.append(np.array(out, dtype=float, copy=True))
            return out

        cls.calculate = calc

    orig_single = DisplacementMove.__dict__["__call__"]

    def single(self, context):
        if type(self) is not DisplacementMove:
            return orig_single(self, context)
        pre = {"pos": context.atoms.positions.copy(), "labels": intended_labels(self), "target": self.to_displace_labels, "ncalc": len(CALC_LOG)}
        out = orig_single(self, context)
        judge_single(rec, self, context, pre, out)
        return out

    DisplacementMove.__call__ = single
    orig_comp = CompositeDisplacementMove.__dict__["__call__"]

    def comp(self, context):
        pre = {"pos": context.atoms.positions.copy(), "inner": len(INNER)}
        out = orig_comp(self, context)
        judge_comp(rec, self, context, pre, out)
        return out

    CompositeDisplacementMove.__call__ = comp


def judge_single(rec, move, ctx, pre, out):
    rec.count("single_calls")
    rec.evaluations += 1
    labels = pre["labels"]
    p0, p1 = pre["pos"], ctx.atoms.positions
    changed = np.where((p0 != p1).any(axis=1))[0]
    eligible = np.unique(labels[labels >= 0])
    opname = type(move.operation).__name__
    wit = {"labels": labels.tolist(), "pre_selected": None if pre["target"] is None else int(pre["target"]), "operation": opname, "returned": bool(out), "changed_rows": changed.tolist(), "veto_mode": VETO.get(id(move), "none")}
    neg = np.where(labels < 0)[0]
    rec.count("negative_label_rows_watched", len(neg))
    if pre["target"] is not None:
        rec.count("preselected_calls")
    chosen = None
    if not out:
        if len(eligible) == 0 and pre["target"] is None:
            rec.count("single_fail_no_eligible")
        else:
            rec.count("single_fail_veto")
            if ctx.atoms.constraints:
                rec.count("single_fail_veto_under_constraint")
        if len(changed):
            rec.viol("C11/single/failure-changed-positions" + ("/under-FixCom" if ctx.atoms.constraints else ""), f"move reported failure but rows {changed.tolist()} changed", wit)
        INNER.append((id(move), None, False, changed))
        return
    rec.count("single_success")
    if ctx.atoms.constraints:
        # "when no constraint interferes": with a coupling constraint (FixCom) a successful move legitimately shifts
        # other atoms too; only the failure clause above is judged for such atoms
        rec.count("single_success_under_constraint_not_judged")
        INNER.append((id(move), move.displaced_labels if move.displaced_labels is None else int(move.displaced_labels), True, changed))
        return
    if len(eligible) == 0 and pre["target"] is None:
        rec.viol("C11/single/success-without-eligible-particle", "move reported success although no atom has a non-negative label", wit)
        return
    if len(np.intersect1d(changed, neg)):
        rec.viol("C11/single/negative-label-displaced", f"atoms with negative labels moved: rows {np.intersect1d(changed, neg).tolist()}", wit)
        return
    if len(changed):
        labs = np.unique(labels[changed])
        if len(labs) != 1:
            rec.viol("C11/single/several-particles-moved", f"rows of labels {labs.tolist()} changed in one move", wit)
            return
        chosen = int(labs[0])
    elif move.displaced_labels is not None:
        chosen = int(move.displaced_labels)
    if chosen is None:
        # success reported, nothing moved and no particle recorded as displaced although particles were eligible
        rec.viol("C11/single/success-without-displaced-particle", "move reported success but no atom moved and no displaced particle is recorded", wit)
        return
    if pre["target"] is not None and chosen != int(pre["target"]):
        rec.viol("C11/single/preselected-target-ignored", f"pre-selected particle {pre['target']} but particle {chosen} moved", wit)
        return
    rows = np.where(labels == chosen)[0]
    if len(rows) > 1:
        rec.count("molecule_moves")
    if len(CALC_LOG) == pre["ncalc"]:
        rec.inconclusive.append("operation result not observed for a successful move")
        return
    res = CALC_LOG[-1]
    try:
        exp = p0[rows] + np.broadcast_to(res, (len(rows), 3))
    except ValueError:
        rec.viol("C11/single/result-shape", f"operation result of shape {res.shape} cannot move {len(rows)} atoms", wit)
        return
    err = np.abs(p1[rows] - exp)
    tol = 1e-12 * np.maximum(1.0, np.abs(exp))
    if (err > tol).any():
        missing = [int(r) for r in rows if r not in changed]
        kind = "selected-atoms-left-behind" if missing else "not-the-operation-result"
        rec.viol(f"C11/single/{kind}", f"atoms of particle {chosen} (rows {rows.tolist()}) were not all moved by the one operation result; max error {err.max():.3g}", {**wit, "result": res})
    INNER.append((id(move), chosen, True, changed))
    rec.case("single", wit_pattern(labels), opname, "pre" if pre["target"] is not None else "rand", wit["veto_mode"], "ok")


def wit_pattern(labels):
    labels = np.asarray(labels)
    f = []
    if (labels < 0).any():
        f.append("neg")
    nn = labels[labels >= 0]
    if len(nn) and len(np.unique(nn)) < len(nn):
        f.append("mol")
    if len(nn) and nn.max() >= len(labels):
        f.append("gap")
    if len(nn) > 1 and (np.diff(nn) < 0).any():
        f.append("unsorted")
    if not len(nn):
        f.append("allneg")
    return "+".join(f) or "plain"


def judge_comp(rec, comp, ctx, pre, out):
    rec.count("composite_calls")
    rec.evaluations += 1
    moves = list(comp.moves)
    labelings = [intended_labels(m) for m in moves]
    shared = all(l.shape == labelings[0].shape and np.array_equal(l, labelings[0]) for l in labelings)
    inner = INNER[pre["inner"] :]
    chosen = [c for (_, c, ok, _) in inner if ok and c is not None]
    p0, p1 = pre["pos"], ctx.atoms.positions
    changed = np.where((p0 != p1).any(axis=1))[0]
    veto = any(VETO.get(id(m), "none") != "none" for m in moves)
    wit = {"n": len(moves), "labels": labelings[0].tolist(), "inner_targets": chosen, "reported_moved": getattr(comp, "number_of_moved_particles", None), "class": type(comp).__name__, "returned": bool(out), "veto": veto, "changed_rows": changed.tolist(), "operations": [type(m.operation).__name__ for m in moves]}
    if not shared:
        # members with different labellings (a move over all atoms next to one over the adsorbates only): a particle is a
        # set of atoms, and no atom may be displaced by two members of one call; the count clauses speak of one common
        # set of eligible particles and are not judged here
        rec.count("composite_calls_with_different_labellings")
        if not ctx.atoms.constraints:
            seen_rows: dict = {}
            for k_, (_, tgt_, ok_, rows_) in enumerate(inner):
                if not ok_:
                    continue
                for r_ in np.asarray(rows_).tolist():
                    if r_ in seen_rows:
                        rec.viol("C11/composite/particle-displaced-twice/members-with-different-labellings", f"atom {r_} was displaced by members {seen_rows[r_]} and {k_} of one composite call", {**wit, "labellings": [l.tolist() for l in labelings]})
                        return
                    seen_rows[r_] = k_
        return
    labels = labelings[0]
    if len(set(chosen)) != len(chosen):
        rec.viol("C11/composite/particle-displaced-twice", f"composite displaced particles {chosen}: a particle appears twice", wit)
        return
    changed_particles = set(int(x) for x in np.unique(labels[changed])) if len(changed) else set()
    if any(x < 0 for x in changed_particles):
        rec.viol("C11/composite/negative-label-displaced", "a negative-label atom moved in a composite call", wit)
        return
    # particles displaced = targets of the successful element calls (each judged on its own by the
    # single-move contract; an operation result that is exactly zero legitimately changes no row)
    moved_particles = set(chosen)
    if not changed_particles <= moved_particles:
        rec.viol("C11/composite/untargeted-particle-moved", f"particles {sorted(changed_particles - moved_particles)} changed position without being the target of an element move", wit)
        return
    eligible = len(np.unique(labels[labels >= 0]))
    want = min(len(moves), eligible)
    nmoved = len(moved_particles)
    if not veto and nmoved != want:
        rec.viol("C11/composite/wrong-number-of-particles", f"composite of {len(moves)} moves displaced {nmoved} particles, expected min(n, eligible)={want}", wit)
    if nmoved < len(moves):
        rec.count("composite_partial")
    if getattr(comp, "number_of_moved_particles", None) is None:
        rec.viol("C11/composite/reported-count-missing", f"the composite ({type(comp).__name__}) does not report how many particles it moved", wit)
    elif int(comp.number_of_moved_particles) != nmoved:
        rec.viol("C11/composite/reported-count-wrong", f"composite reports {comp.number_of_moved_particles} moved particles, {nmoved} really moved", wit)
    if bool(out) != (nmoved > 0):
        rec.viol("C11/composite/return-value", f"composite returned {out!r} with {nmoved} particles moved", wit)
    rec.case("comp", wit_pattern(labels), len(moves), "veto" if veto else "free", nmoved)
    rec.sample(wit, cap=2)


# ----------------------------------------------------------------------------- workloads
def gen_labels(rng, n):
    mode = int(rng.integers(0, 9))
    if mode == 8:  # packed / hashed 64-bit particle ids: neighbours closer than the spacing of float64 at that magnitude
        lab = int(rng.choice([2**53, 2**60, 2**62 + 12345])) + rng.permutation(2 * n)[:n].astype(np.int64)
        lab[rng.random(n) < 0.2] = -1
        return np.asarray(lab, dtype=np.int64)
    if mode == 0:
        lab = np.arange(n)
    elif mode == 1:  # molecules
        lab = np.repeat(np.arange(n), int(rng.integers(2, 4)))[:n]
    elif mode == 2:  # negatives mixed in
        lab = np.arange(n)
        lab[rng.random(n) < 0.4] = -int(rng.integers(1, 4))
    elif mode == 3:  # gaps, unsorted
        lab = rng.permutation(n * 3)[:n]
    elif mode == 4:  # repeated, unsorted, negative
        lab = rng.integers(-2, max(1, n // 2), n)
    elif mode == 5:
        lab = -np.ones(n, dtype=int) * int(rng.integers(1, 5))
    elif mode == 6:  # single particle among spectators
        lab = -np.ones(n, dtype=int)
        lab[rng.permutation(n)[: int(rng.integers(1, 3))]] = int(rng.integers(0, 9))
    else:  # interleaved molecules
        lab = np.arange(n) % max(1, n // 2)
    lab = np.asarray(lab, dtype=int)
    if lab.min(initial=0) >= 0 and rng.random() < 0.35:
        # labels that are all non-negative may come in an unsigned or a narrow integer dtype
        lab = lab.astype([np.uint8, np.uint16, np.uint64, np.int32, np.int8][int(rng.integers(5))])
    return lab


def make_op(rng, n_max_group):
    import quansino.operations.displacement as od

    k = int(rng.integers(0, 8))
    s = float(10 ** rng.uniform(-2, 0.5))
    if k == 0:
        return od.Ball(s)
    if k == 1:
        return od.Box(s)
    if k == 2:
        return od.Sphere(s)
    if k == 3:
        return od.Translation()
    if k == 4:
        return od.Rotation()
    if k == 5:
        return od.TranslationRotation()
    if k == 6:
        return od.Ball(s) + od.Box(s)
    return od.Box(s) + od.Rotation()


def veto_fn(rng, mode):
    state = {"k": 0}
    if mode == "always":
        return lambda ctx: False
    if mode == "first":
        kk = int(rng.integers(1, 4))

        def f(ctx):
            state["k"] += 1
            return state["k"] > kk

        return f
    seedv = int(rng.integers(1, 2**31))
    r2 = np.random.default_rng(seedv)
    return lambda ctx: bool(r2.random() < 0.5)


def run(spec):
    from qv import env

    env.import_quansino()
    from ase import Atoms

    from quansino.mc.contexts import DisplacementContext
    from quansino.moves.displacement import CompositeDisplacementMove, DisplacementMove

    rec = Rec(spec["name"])
    install(rec)
    rng = rng_for("C11", spec["seed"], spec["j"])
    for _ in range(spec["cases"]):
        n = int(rng.integers(1, 13))
        labels = gen_labels(rng, n)
        cell = np.diag(rng.uniform(6, 12, 3)) + np.tril(rng.uniform(-2, 2, (3, 3)), -1) * (rng.random() < 0.5)
        atoms = Atoms(["H", "C", "O", "Cu"][int(rng.integers(4))] + str(n), positions=rng.uniform(0, 6, (n, 3)), cell=cell, pbc=True)
        atoms.set_masses(rng.uniform(1, 60, n))
        constrained = bool(rng.random() < 0.12)
        if constrained:
            from ase.constraints import FixCom

            atoms.set_constraint(FixCom())  # couples all atoms: a vetoed attempt must be undone for every one of them
        ctx = DisplacementContext(atoms, np.random.Generator(np.random.PCG64(int(rng.integers(1, 2**62)))))
        mode = 0.0 if constrained else rng.random()
        vmode = "none"
        r = rng.random()
        if r < 0.12:
            vmode = "always"
        elif r < 0.25:
            vmode = "first"
        elif r < 0.35:
            vmode = "random"

        def new_move(labels=None):
            labels = outer_labels() if labels is None else labels
            m = DisplacementMove(labels.copy() if rng.random() < 0.8 else [int(x) for x in labels], make_op(rng, n))  # now and then a plain list
            if vmode != "none":
                m.check_move = veto_fn(rng, vmode)
                m.max_attempts = int(rng.integers(1, 5))
            VETO[id(m)] = vmode
            KEEP.append(m)  # keep alive so ids stay unique
            intend_labels(m, labels)
            return m

        def outer_labels():
            return labels

        try:
            if mode < 0.5:
                m = new_move()
                # a bystander built from the same labelling before the first move is re-labelled: it keeps its own
                bystander = new_move() if rng.random() < 0.3 else None
                for rep in range(3):
                    if rep == 1 and rng.random() < 0.3:
                        # the particles re-labelled on the live move through the documented set_labels(): every clause
                        # again with the new labelling
                        labels = gen_labels(rng, n)
                        if rng.random() < 0.5:
                            m.set_labels(labels.copy())
                        else:
                            # the user's own array edited in place and handed to set_labels again
                            arr = m.labels
                            arr[...] = labels  # (numpy casts to the array's own dtype: what the user hands over is arr)
                            m.set_labels(arr)
                            labels = np.array(arr, copy=True)
                        intend_labels(m, labels)
                        rec.count("relabelled_live_moves")
                        if bystander is not None:
                            bystander(ctx)
                            rec.count("bystander_calls_after_a_sibling_was_relabelled")
                    nn = labels[labels >= 0]
                    if len(nn) and rng.random() < 0.3:
                        m.to_displace_labels = int(rng.choice(nn))
                    m(ctx)
            else:
                k = int(rng.integers(1, 7))
                form = rng.random()
                if form < 0.5:
                    comp = new_move() * k
                elif form < 0.8 or k < 2:
                    comp = new_move()
                    for _ in range(k - 1):
                        comp = comp + new_move()
                    if k == 1:
                        comp = comp * 1
                else:
                    # the same composite written the other way round: a single move on the left of a composite
                    # (move + move * (k-1), m1 + (m2 + (m3 + ...)))
                    if rng.random() < 0.5:
                        comp = new_move() + new_move() * (k - 1)
                    else:
                        comp = new_move() * 1
                        for _ in range(k - 1):
                            comp = new_move() + comp
                    rec.count("composites_built_with_a_single_move_on_the_left")
                if rng.random() < 0.15 and (labels >= 0).sum() >= 2 and labels.dtype.kind == "i":
                    # one more member whose labelling covers only some of the particles (the others are spectators to it)
                    sub = labels.copy()
                    ids_ = np.unique(labels[labels >= 0])
                    drop = rng.choice(ids_, size=int(rng.integers(1, len(ids_))), replace=False) if len(ids_) > 1 else ids_[:0]
                    sub[np.isin(sub, drop)] = -1
                    comp = comp + new_move(sub) if rng.random() < 0.5 else new_move(sub) + comp
                    rec.count("composites_with_a_member_of_another_labelling")
                if not isinstance(comp, CompositeDisplacementMove):
                    # whatever kind of object + and * hand back for displacement moves, it is "a composite of n
                    # displacement moves": judged by the same clauses, called through the harness instead of the class wrapper
                    rec.count("composites_of_another_class_judged_by_hand")
                    for _ in range(4):
                        pre_ = {"pos": ctx.atoms.positions.copy(), "inner": len(INNER)}
                        judge_comp(rec, comp, ctx, pre_, comp(ctx))
                    continue
                for _ in range(2):
                    nn = np.unique(labels[labels >= 0])
                    if len(nn) and rng.random() < 0.5:
                        # hostile use of the pre-selection attribute on the elements of a composite: the same target on
                        # several elements, or a target on a later element only; whatever the composite makes of it, no
                        # particle may be displaced twice and the count clauses stand
                        tgt = int(rng.choice(nn))
                        els = list(comp.moves)
                        picks = els if rng.random() < 0.5 else els[int(rng.integers(0, len(els))) :]
                        for el in picks:
                            el.to_displace_labels = tgt if rng.random() < 0.8 else int(rng.choice(nn))
                        rec.count("composite_calls_with_preselected_elements")
                    comp(ctx)
        except Exception as ex:  # noqa: BLE001
            rec.viol(f"C11/raised/{type(ex).__name__}", f"displacement move raised {type(ex).__name__}: {ex}", {"labels": labels.tolist(), "veto": vmode})
    return rec.out()


VETO: dict = {}
KEEP: list = []
INTENDED: dict = {}


def intend_labels(move, labels):
    """The workload's own record of the labelling it gave this move object."""
    INTENDED[id(move)] = (move, np.array(labels, copy=True))


def intended_labels(move):
    """The labelling a move is judged against: what the workload gave that object, not what the object now holds."""
    got = INTENDED.get(id(move))
    if got is not None and got[0] is move:
        return got[1].copy()
    return np.array(move.labels, copy=True)
