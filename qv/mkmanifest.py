"""Regenerate /verif/MANIFEST.json from the property modules (python -m qv.mkmanifest)."""
from __future__ import annotations

import importlib
import json
import os

from qv import env

env.setup_path()
ALL = [f"C{i:02d}" for i in range(1, 21)]
TECH = {
    "C01": "runtime monitoring: observables sampled from real simulations of solvable systems, 16 independent chains, z-test against analytic values with one re-measurement",
    "C02": "runtime contract around every criteria.evaluate: RNG-shadow predicts the uniform draw, oracle recomputes log A from the statement's formulas",
    "C03": "trial tracer over the stepping generator + bitwise snapshot oracle for rejected/failed trials, forced histories (scripted criteria, vetoes, pre-selections)",
    "C04": "trial tracer + independent from-scratch energy oracle, result-tagging / per-atom-state calculators, evaluation counters",
    "C05": "trial tracer + shadow particle ledger (hidden per-atom uid array) compared with every label array and the recorded particle number",
    "C06": "digest streams of twin runs (global generators perturbed, fresh interpreter) + global-RNG tripwires",
    "C07": "recorded restart documents of a reference run resumed in a fresh interpreter; digest streams compared step by step",
    "C08": "introspective discovery + to_dict/JSON/registry/from_dict round trips in fresh interpreters, one per public module imported first",
    "C09": "per-step predicates on the yielded move names of seeded tables + pooled binomial / chi-square tests with re-measurement",
    "C10": "runtime contracts around every operation's calculate (geometry, RNG-shadow replay of composites) + symmetry/uniformity statistics with re-measurement",
    "C11": "runtime contracts around (composite) displacement move calls comparing positions row by row with the label array and the recorded operation result",
    "C12": "trial tracer / per-step monitor of fixed atoms and centre of mass; contract on FixRot.adjust_momenta",
    "C13": "runtime contract around ForceBias.step (bound, single advance, round watchdog) + KS test against the closed-form Bal-Neyts CDF",
    "C14": "direct drive of the real integrator (forward-flip-forward, dt-halving), normality tests of the refresh, contract on the criteria's kinetic energy",
    "C15": "recording observers + step counter over all compositions of n steps into run/srun/irun calls, compared with a single run",
    "C16": "operation-logging file objects replayed into a file model at every cut point (two durability models) + real process kills at sys.monitoring line events",
    "C17": "exhaustive bounded enumeration of + / * expression trees judged by a reference evaluator (element identity, exact type), probe-move call logs",
    "C18": "runtime contract around AdaptiveForceBias.update_delta with prescribed committee data / prescribed-variation schemes",
    "C19": "runtime contracts around reinsert_atoms (bitwise restore) and search_molecules (independent union-find partition oracle)",
    "C20": "attribute-access-logging bare protocol objects in every driver + notification / routing / serialization oracles",
}
NOT_APPLICABLE: dict[str, str] = {}


def level_text(mod) -> str:
    doc = " ".join((mod.__doc__ or "").split())
    level = getattr(mod, "LEVEL", "exploration")
    tail = (
        " Assurance: the property held (or the listed known findings occurred) on every execution the seeded workloads produced and the monitors observed; the evidence file "
        "reports how many executions, which distinct cases and which monitor counters. Nothing is claimed for executions that were not produced. "
    )
    if level == "fault_enumeration":
        tail += "Level fault_enumeration: every cut point of each recorded operation log is enumerated (exhaustive within the recorded runs); the runs themselves are sampled."
    else:
        tail += "Level exploration: the statement quantifies over all inputs / histories, which runtime monitoring can only sample; reach comes from hostile generators, forced histories and volume."
    return doc + tail


def main() -> None:
    checks, na = [], []
    for pid in ALL:
        path = os.path.join(env.VERIF, "qv", "props", pid.lower() + ".py")
        if pid in NOT_APPLICABLE or not os.path.exists(path):
            na.append({"property_id": pid, "reason": NOT_APPLICABLE.get(pid, "no check registered yet: its monitor is still under construction in this harness (not a statement about the technique)")})
            continue
        mod = importlib.import_module(f"qv.props.{pid.lower()}")
        checks.append(
            {
                "property_id": pid,
                "quick_cmd": f"./check {pid} --tier quick",
                "thorough_cmd": f"./check {pid} --tier thorough",
                "evidence_file": f"evidence/{pid}.json",
                "replay_cmd_template": f"./check {pid} --replay {{path}}",
                "engine": "qv",
                "level_claimed": {
                    "category": getattr(mod, "LEVEL", "exploration"),
                    "text": level_text(mod),
                    "design_ref": f"DESIGN.md section 3, {pid}",
                },
                "level_note": getattr(mod, "LEVEL_NOTE", "; ".join(getattr(mod, "ASSUMPTIONS", [])) or "ASE/numpy/scipy as installed; harness oracles"),
                "technique": TECH.get(pid, "runtime monitoring: oracle over observed executions of the real code"),
            }
        )
    manifest = {
        "version": 1,
        "setup_cmd": "/venv/bin/python -m compileall -q qv >/dev/null 2>&1; /venv/bin/python -c \"import sys; sys.path.insert(0,'/repo/src'); import quansino.mc, ase, numpy, scipy\"",
        "hooks": {
            "guard": env.GUARD,
            "enable": "no source hooks: ./check sets QUANSINO_VERIF=1 for its shard processes, which import quansino from $QV_REPO/src (default /repo/src, the current working tree) and attach monitors from outside (class-attribute wrappers, trial tracer over MonteCarlo.irun/step yields, RNG shadows, op-logging file objects, sys.monitoring failpoints)",
            "baseline_off_cmd": "cd /repo && /venv/bin/python -m pytest -ra -q -p no:cacheprovider --timeout=900 --continue-on-collection-errors",
            "source_commits": [],
            "add_only": True,
        },
        "engines": [
            {"name": "qv", "path": "qv/", "serves_properties": [c["property_id"] for c in checks], "kind_free_text": "Python runtime-monitoring harness: workload generators + monitors/oracles attached to the real quansino classes; shards are fresh subprocesses; ./check <ID> merges shard observations, classifies against known_findings.txt, writes evidence/<ID>.json"}
        ],
        "checks": checks,
        "not_applicable": na,
        "notes": "Exit 0 = held on what was observed; 1 = VIOLATION (replay file under replays/); 2 = INCONCLUSIVE (a deciding monitor observed nothing or a shard died). Known findings: known_findings.txt. QV_REPO=<tree> points every check at another checkout (mutation drills).",
    }
    with open(os.path.join(env.VERIF, "MANIFEST.json"), "w") as fh:
        json.dump(manifest, fh, indent=1)
    print(f"{len(checks)} checks, {len(na)} not_applicable")


if __name__ == "__main__":
    main()
