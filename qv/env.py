"""Locate the repository under test and make sure *its* sources are imported.

QV_REPO (default /repo) points at the tree to check; mutation drills point it at a
scratch copy.  The guard QUANSINO_VERIF=1 is set by the runner: it switches the
harness-side instrumentation on (no source hooks exist in the repository).
"""
from __future__ import annotations

import os
import sys

VERIF = os.path.dirname(os.path.dirname(os.path.abspath(__file__)))
REPO = os.path.abspath(os.environ.get("QV_REPO", "/repo"))
SRC = os.path.join(REPO, "src")
PY = "/venv/bin/python" if os.path.exists("/venv/bin/python") else sys.executable
GUARD = "QUANSINO_VERIF"


def setup_path() -> None:
    if sys.path[0] != SRC:
        if SRC in sys.path:
            sys.path.remove(SRC)
        sys.path.insert(0, SRC)
    if VERIF not in sys.path:
        sys.path.insert(1, VERIF)


def import_quansino():
    """Import quansino from SRC and assert where it came from."""
    setup_path()
    import quansino  # noqa: PLC0415
    import quansino.mc  # noqa: PLC0415,F401  (import order is C08's subject, not the harness's)
    import quansino.moves  # noqa: PLC0415,F401
    import quansino.operations  # noqa: PLC0415,F401
    import quansino.integrators  # noqa: PLC0415,F401
    import quansino.utils  # noqa: PLC0415,F401
    import quansino.io  # noqa: PLC0415,F401

    path = os.path.abspath(quansino.__file__)
    if not path.startswith(SRC + os.sep):
        raise RuntimeError(f"quansino imported from {path}, expected under {SRC}")
    return quansino
