"""Regenerate /verif/MANIFEST.json from the property modules (python -m qv.mkmanifest)."""
from __future__ import annotations

import importlib
import json
import os

from qv import env

env.setup_path()
ALL = [f"C{i:02d}" for i in range(1, 21)]
NOT_APPLICABLE: dict[str, str] = {}


def main() -> None:
    checks, na = [], []
    for pid in ALL:
        path = os.path.join(env.VERIF, "qv", "props", pid.lower() + ".py")
        if pid in NOT_APPLICABLE or not os.path.exists(path):
            na.append({"property_id": pid, "reason": NOT_APPLICABLE.get(pid, "no check registered yet: its monitor is still under construction in this harness (not a statement about the technique)")})
            continue
        mod = importlib.import_module(f"qv.props.{pid.lower()}")
        checks.append(
            {
                "property_id": pid,
                "quick_cmd": f"./check {pid} --tier quick",
                "thorough_cmd": f"./check {pid} --tier thorough",
                "evidence_file": f"evidence/{pid}.json",
                "replay_cmd_template": f"./check {pid} --replay {{path}}",
                "engine": "qv",
                "level_claimed": {
                    "category": getattr(mod, "LEVEL", "exploration"),
                    "text": getattr(mod, "LEVEL_TEXT", (mod.__doc__ or "").strip().split("\n\n")[0]),
                    "design_ref": f"DESIGN.md section 3, {pid}",
                },
                "level_note": getattr(mod, "LEVEL_NOTE", "; ".join(getattr(mod, "ASSUMPTIONS", [])) or "ASE/numpy/scipy as installed; harness oracles"),
                "technique": getattr(mod, "TECHNIQUE", "runtime monitoring: oracle over observed executions of the real code"),
            }
        )
    manifest = {
        "version": 1,
        "setup_cmd": "/venv/bin/python -m compileall -q qv >/dev/null 2>&1; /venv/bin/python -c \"import sys; sys.path.insert(0,'/repo/src'); import quansino.mc, ase, numpy, scipy\"",
        "hooks": {
            "guard": env.GUARD,
            "enable": "no source hooks: ./check sets QUANSINO_VERIF=1 for its shard processes, which import quansino from $QV_REPO/src (default /repo/src, the current working tree) and attach monitors from outside (class-attribute wrappers, trial tracer over MonteCarlo.irun/step yields, RNG shadows, op-logging file objects, sys.monitoring failpoints)",
            "baseline_off_cmd": "cd /repo && /venv/bin/python -m pytest -ra -q -p no:cacheprovider --timeout=900 --continue-on-collection-errors",
            "source_commits": [],
            "add_only": True,
        },
        "engines": [
            {"name": "qv", "path": "qv/", "serves_properties": [c["property_id"] for c in checks], "kind_free_text": "Python runtime-monitoring harness: workload generators + monitors/oracles attached to the real quansino classes; shards are fresh subprocesses; ./check <ID> merges shard observations, classifies against known_findings.txt, writes evidence/<ID>.json"}
        ],
        "checks": checks,
        "not_applicable": na,
        "notes": "Exit 0 = held on what was observed; 1 = VIOLATION (replay file under replays/); 2 = INCONCLUSIVE (a deciding monitor observed nothing or a shard died). Known findings: known_findings.txt. QV_REPO=<tree> points every check at another checkout (mutation drills).",
    }
    with open(os.path.join(env.VERIF, "MANIFEST.json"), "w") as fh:
        json.dump(manifest, fh, indent=1)
    print(f"{len(checks)} checks, {len(na)} not_applicable")


if __name__ == "__main__":
    main()
