"""C14 - Hamiltonian proposals are reversible and correctly thermalised.

Monitors: (a) the real `Verlet.integrate` is driven forward, momenta are negated, and it
is driven forward again; the end state must equal the start state (1e-9 relative);
(b) the total-energy error over a fixed time is measured at dt, dt/2, dt/4 and its
order must be 2 (+-0.3); (c) the real momentum-refresh function is sampled and the
standardised components tested against N(0,1) (mean, variance, KS; one re-measurement),
the forced variant must hit the target kinetic temperature to rounding; (d) in live
HamiltonianCanonical simulations a recorder around the move's `distribution` callable
and a contract on the criteria's `evaluate` check that the kinetic energy the criteria
is given is that of the freshly drawn momenta.
Integrator objects are also used 'second hand' (used for a proposal that is then undone
from outside, as after a rejected trial); the forced refresh is also run under
FixAtoms / FixCom / FixedPlane.
Reversibility runs include rigid bonds; half of the live simulations also carry a single-particle displacement move,
and every momentum refresh is checked component by component (a component that keeps its value was not drawn).
Every fifth energy-order case carries an energy-contributing ASE constraint (Hookean tether, ExternalForce).
The live simulations refresh momenta, in turn, with the shipped helper, a hand-written draw, and the helper followed
by removal of the net drift.
"""
from __future__ import annotations

import math

import numpy as np

from ase.units import fs as FS
from ase.units import kB as KB

from qv.lib import Harmonic, Rec, SoftPair, derive_seed, rng_for

PACKAGE_RAISE_IS_VIOLATION = True  # every shard input is built inside the statement's domain (see qv/shard.py)
LEVEL = "exploration"
RULE = (
    "one evaluation = one forward-flip-forward integration, one dt-halving triple, one batch of momentum draws, or one Hamiltonian trial; "
    "distinct by (potential, natoms, mass range, omega*dt class, steps class, constraint-application flag); non-trivial when momenta are non-zero and forces are non-zero"
)
ASSUMPTIONS = [
    "potentials: anharmonic wells (harmonic + quartic) and a smooth bounded pair potential; time steps with omega*dt <= 0.3",
    "reversibility tolerance 1e-9 relative to max(1, |x|) resp. the momentum scale; order of the energy error fitted from three step sizes must lie in [1.7, 2.3]",
    "forced refresh: |2KE/(dof kT) - 1| <= 1e-9 for T >= 1 K (the implementation adds 1e-15 eV to the temperature before scaling)",
    "normality: |z|>5 on mean/variance or KS p<1e-6 flags; re-measured once with 4x the draws",
]
REQUIRED = {"refreshes_by_hand-written": 100, "refreshes_by_shipped-then-stationary": 100, "order_runs_with_energy_contributing_constraint": 15, "refresh_components_watched": 3000, "reversibility_runs_with_rigid_bonds": 15, "order_runs_with_reassigned_time_step": 20, "forced_refresh_with_constraints": 30, "reversibility_runs": 150, "reversibility_runs_with_used_integrator": 50, "order_runs_with_used_integrator": 20, "order_triples": 30, "refresh_batches": 4, "forced_refresh": 100, "hmc_trials": 300, "ke_checked_at_criteria": 300}
SHARD_TIMEOUT = {"quick": 900, "thorough": 3000}


def plan(tier, seed):
    big = tier != "quick"
    specs = []
    for j in range(8):
        specs.append({"name": f"reverse{j}", "mode": "reverse", "j": j, "seed": seed, "cases": 60 if not big else 600})
    for j in range(4):
        specs.append({"name": f"order{j}", "mode": "order", "j": j, "seed": seed, "cases": 25 if not big else 120})
    for j in range(4):
        specs.append({"name": f"refresh{j}", "mode": "refresh", "j": j, "seed": seed, "n": 120000 if not big else 1500000})
    for j in range(4):
        specs.append({"name": f"hmc{j}", "mode": "hmc", "j": j, "seed": seed, "steps": 300 if not big else 1500})
    return specs


def make_system(rng, kind=None):
    from ase import Atoms

    n = int(rng.integers(1, 9))
    kind = kind or str(rng.choice(["well", "pair"]))
    masses = rng.uniform(1, 200, n)
    if kind == "well":
        sites = rng.uniform(2, 8, (n, 3))
        k = float(10 ** rng.uniform(-0.3, 1.5))
        q = float(rng.uniform(0, 1) * k)
        pos = sites + rng.normal(scale=0.15, size=(n, 3))
        calc = Harmonic(sites, k, quartic=q)
        kmax = k + 3 * q * 0.3**2
        cell, pbc = None, False
    else:
        pos = rng.uniform(0, 6, (n, 3))
        calc = SoftPair(A=float(rng.uniform(0.1, 0.6)), s=1.2, field=0.05)
        kmax = calc.A / calc.s**2 * max(1, n - 1) + 0.05 * 5 * 0.58
        cell, pbc = None, False  # non-periodic: the minimum-image cut of the harness potential is not smooth
    atoms = Atoms("H" * n, positions=pos, cell=cell, pbc=pbc)
    atoms.set_masses(masses)
    atoms.calc = calc
    omega = math.sqrt(kmax / masses.min())
    return atoms, omega, kind


def make_ctx(atoms, seed, T=300.0):
    from quansino.mc.contexts import HamiltonianDisplacementContext

    ctx = HamiltonianDisplacementContext(atoms, np.random.Generator(np.random.PCG64(seed)))
    ctx.temperature = T
    return ctx


def run_reverse(spec, rec):
    from quansino.integrators.displacement import Verlet

    rng = rng_for("C14r", spec["seed"], spec["j"])
    for i in range(spec["cases"]):
        atoms, omega, kind = make_system(rng)
        T = float(10 ** rng.uniform(1, 3.5))
        kT = KB * T
        atoms.set_momenta(rng.normal(size=(len(atoms), 3)) * np.sqrt(atoms.get_masses() * kT)[:, None])
        wdt = float(rng.uniform(0.02, 0.3))
        dt_fs = wdt / omega / FS
        steps = int(rng.choice([1, 2, 7, 40, 150, 400]))
        appl = bool(rng.random() < 0.5)
        if appl and len(atoms) >= 4 and rng.random() < 0.3:
            # rigid bonds: a constraint that really moves the predicted positions at every step (SHAKE / RATTLE style)
            from ase.constraints import FixBondLengths

            atoms.set_constraint(FixBondLengths([[0, 1], [2, 3]]))
            atoms.set_momenta(atoms.get_momenta())  # project the momenta onto the constraint surface
            rec.count("reversibility_runs_with_rigid_bonds")
        ctx = make_ctx(atoms, derive_seed("r", i))
        x0, p0 = atoms.get_positions(), atoms.get_momenta()
        integ = Verlet(dt=dt_fs, max_steps=steps, apply_constraints=appl)
        # history of the integrator object: fresh, or already used on these atoms for a proposal that was then undone
        # from outside (positions and momenta put back, as a rejected or vetoed Hamiltonian trial does)
        used = i % 2 == 1
        wit = {"potential": kind, "natoms": len(atoms), "omega_dt": wdt, "dt_fs": dt_fs, "steps": steps, "apply_constraints": appl, "T": T, "integrator": "used before, state restored from outside" if used else "fresh"}
        try:
            # forward sensitivity of the trajectory (how much a 1e-9 perturbation grows): rounding errors
            # injected on the way are amplified by at most about this factor on the way back
            # (measured on two copies with integrator objects of their own, so that it does not depend on the
            # object under test or on its history)
            def clone():
                t = atoms.copy()
                t.calc = atoms.calc.__class__.__new__(atoms.calc.__class__)
                t.calc.__dict__.update({k: v for k, v in atoms.calc.__dict__.items() if k not in ("atoms", "results")})
                t.calc.atoms, t.calc.results = None, {}
                t.set_momenta(p0.copy(), apply_constraint=False)
                return t

            twin, twin0 = clone(), clone()
            eps = 1e-9
            twin.positions += eps * rng.normal(size=x0.shape)
            Verlet(dt=dt_fs, max_steps=steps, apply_constraints=appl).integrate(make_ctx(twin, 1))
            Verlet(dt=dt_fs, max_steps=steps, apply_constraints=appl).integrate(make_ctx(twin0, 1))
            amp = max(1.0, float(np.abs(twin.get_positions() - twin0.get_positions()).max() / eps))
            if used:
                integ.integrate(ctx)
                if i % 4 == 1:
                    atoms.positions = x0.copy()
                else:
                    atoms.set_positions(x0.copy(), apply_constraint=False)
                atoms.set_momenta(p0.copy(), apply_constraint=False)
                rec.count("reversibility_runs_with_used_integrator")
            integ.integrate(ctx)
            x1 = atoms.get_positions()
            atoms.set_momenta(-atoms.get_momenta())
            integ.integrate(ctx)
        except Exception as ex:  # noqa: BLE001
            rec.viol(f"C14/integrate-raised/{type(ex).__name__}", f"Verlet.integrate raised {ex}", wit)
            continue
        tol = max(1e-9, 1e-12 * steps * amp)
        wit["rounding_amplification"] = amp
        if tol > 1e-6:
            rec.count("reversibility_unresolved_chaotic")
            continue
        rec.evaluations += 1
        rec.count("reversibility_runs")
        xb, pb = atoms.get_positions(), -atoms.get_momenta()
        ex_ = np.abs(xb - x0).max() / max(1.0, np.abs(x0).max())
        pscale = max(np.abs(p0).max(), 1e-12)
        ep = np.abs(pb - p0).max() / pscale
        moved = np.abs(x1 - x0).max()
        if moved > 0 and np.abs(p0).max() > 0:
            rec.case("rev", kind, len(atoms), round(wdt, 1), steps, appl, used)
        if moved == 0:
            rec.viol("C14/integrator-does-not-move", "integration left positions unchanged although momenta are non-zero", wit)
        elif ex_ > tol or ep > tol:
            rec.viol(f"C14/not-reversible/apply_constraints={appl}" + ("/integrator-used-before" if used else "") + ("/rigid-bonds" if atoms.constraints else ""), f"forward-flip-forward misses the start by {ex_:.3g} (positions), {ep:.3g} (momenta)", {**wit, "err_pos": ex_, "err_mom": ep})
        rec.sample({**wit, "err_pos": ex_, "err_mom": ep}, cap=2)


def run_order(spec, rec):
    from quansino.integrators.displacement import Verlet

    rng = rng_for("C14o", spec["seed"], spec["j"])
    for i in range(spec["cases"]):
        atoms0, omega, kind = make_system(rng, "well" if i % 2 == 0 else "pair")
        T = float(10 ** rng.uniform(2, 3))
        kT = KB * T
        p0 = rng.normal(size=(len(atoms0), 3)) * np.sqrt(atoms0.get_masses() * kT)[:, None]
        wdt = float(rng.uniform(0.05, 0.2))
        appl = bool(rng.random() < 0.5)
        chunks, base = 12, int(rng.integers(4, 12))
        errs = []
        # in every fifth case the atoms carry an energy-contributing ASE constraint (a harmonic tether to a point, or a
        # constant force pulling two atoms apart): its energy is part of the total energy and its force part of the
        # forces, whether or not the integrator is told to apply constraints to positions and momenta
        spring = None
        if i % 5 == 4:
            from ase.constraints import ExternalForce, Hookean

            if len(atoms0) >= 2 and not appl and rng.random() < 0.4:
                spring = ExternalForce(0, 1, float(rng.uniform(0.05, 0.4)))
            else:
                ks = float(10 ** rng.uniform(-0.5, 1.0))
                spring = Hookean(a1=int(rng.integers(len(atoms0))), a2=tuple(atoms0.positions[0] + rng.normal(scale=0.5, size=3)), k=ks, rt=0.0)
                omega = math.sqrt(omega**2 + ks / atoms0.get_masses().min())
            atoms0.set_constraint(spring)
            rec.count("order_runs_with_energy_contributing_constraint")
        # history of the integrator object in every other case: already used on these atoms for a proposal that was
        # then undone from outside (positions and momenta put back), as after a rejected Hamiltonian trial
        shared = i % 4 >= 2
        x00 = atoms0.get_positions()
        try:
            for h in (0, 1, 2, 3):
                atoms = atoms0.copy()
                atoms.calc = atoms0.calc.__class__.__new__(atoms0.calc.__class__)
                atoms.calc.__dict__.update({k: v for k, v in atoms0.calc.__dict__.items() if k not in ("atoms", "results")})
                atoms.calc.atoms = None
                atoms.calc.results = {}
                atoms.set_momenta(p0.copy())
                ctx = make_ctx(atoms, derive_seed("o", i, h))
                dt_fs = wdt / omega / FS / 2**h
                if i % 8 >= 6 and hasattr(Verlet(dt=1.0), "dt"):
                    # a step-size scan on one kind of object: built with another time step, then its documented `dt` and
                    # `max_steps` attributes re-assigned (the attribute's unit is read off the object itself)
                    integ = Verlet(dt=dt_fs * 3.7, max_steps=5, apply_constraints=appl)
                    unit = integ.dt / (dt_fs * 3.7)
                    integ.dt = dt_fs * unit
                    integ.max_steps = base * 2**h
                    rec.count("order_runs_with_reassigned_time_step")
                else:
                    integ = Verlet(dt=dt_fs, max_steps=base * 2**h, apply_constraints=appl)
                if shared:
                    integ.integrate(ctx)
                    atoms.positions = x00.copy()
                    atoms.set_momenta(p0.copy(), apply_constraint=False)
                    rec.count("order_runs_with_used_integrator")
                e0 = atoms.get_total_energy()
                emax = 0.0
                for _ in range(chunks):
                    integ.integrate(ctx)
                    emax = max(emax, abs(atoms.get_total_energy() - e0))
                errs.append(emax)
        except Exception as ex:  # noqa: BLE001
            rec.viol(f"C14/integrate-raised/{type(ex).__name__}", f"Verlet.integrate raised {ex}", {"potential": kind})
            continue
        rec.evaluations += 1
        wit = {"potential": kind, "natoms": len(atoms0), "omega_dt": wdt, "apply_constraints": appl, "energy_errors_dt_dt2_dt4_dt8": errs, "integrator": "used before, state restored from outside" if shared else "fresh", "constraint": type(spring).__name__ if spring is not None else None}
        if min(errs) < 1e-10:
            rec.count("order_unresolved")
            continue
        rec.count("order_triples")
        # the order is a statement about dt -> 0: judge the two finest halvings
        slope = math.log2(errs[1] / errs[3]) / 2
        rec.case("order", kind, len(atoms0), round(wdt, 2), appl, shared)
        if not 1.7 <= slope <= 2.3:
            rec.viol("C14/energy-error-order" + ("/integrator-used-before" if shared else "") + (f"/{type(spring).__name__}" if spring is not None else ""), f"total-energy error scales with dt^{slope:.2f}, expected dt^2", {**wit, "order": slope})
        rec.sample({**wit, "order": slope}, cap=2)


def norm_flags(z):
    from scipy.stats import kstest

    n = len(z)
    flags = []
    zm = z.mean() * math.sqrt(n)
    if abs(zm) > 5:
        flags.append(("mean", float(zm)))
    zv = (z.var(ddof=1) - 1) / math.sqrt(2 / n)
    if abs(zv) > 5:
        flags.append(("variance", float(zv)))
    p = kstest(z, "norm").pvalue
    if p < 1e-6:
        flags.append(("ks", float(p)))
    return flags


def run_refresh(spec, rec):
    from ase import Atoms

    from quansino.utils.dynamics import maxwell_boltzmann_distribution

    rng = rng_for("C14m", spec["seed"], spec["j"])
    T = float([3.0, 300.0, 2500.0, 10000.0][spec["j"] % 4])
    kT = KB * T
    n = 50
    atoms = Atoms("H" * n, positions=rng.uniform(0, 10, (n, 3)))
    masses = rng.uniform(1, 200, n)
    atoms.set_masses(masses)
    ctx = make_ctx(atoms, derive_seed("m", spec["seed"], spec["j"]), T)

    def draw(m):
        out = []
        for _ in range(max(1, m // (3 * n))):
            maxwell_boltzmann_distribution(ctx)
            rec.evaluations += 1
            out.append((atoms.get_momenta() / np.sqrt(masses * kT)[:, None]).ravel())
        return np.concatenate(out)

    z = draw(spec["n"])
    rec.count("refresh_batches")
    rec.case("refresh", T)
    fl = norm_flags(z)
    rec.sample({"T": T, "draws": len(z), "mean": float(z.mean()), "var": float(z.var()), "flags": fl}, cap=1)
    if fl:
        rec.count("escalations")
        z2 = draw(4 * spec["n"])
        fl2 = dict(norm_flags(z2))
        for name, val in fl:
            if name in fl2 and (name == "ks" or (fl2[name] > 0) == (val > 0)):
                rec.viol(f"C14/refresh-not-normal/{name}", f"refreshed momenta / sqrt(m kT) are not N(0,1): {name} statistic {val:.3g}, re-measured {fl2[name]:.3g}", {"T": T, "n": [len(z), len(z2)], "mean": float(z2.mean()), "var": float(z2.var())})
                break
    # per-mass variance: heavy and light atoms separately (catches a missing sqrt or mass factor)
    zz = z.reshape(-1, n, 3)
    light, heavy = masses < np.median(masses), masses >= np.median(masses)
    for nm, sel in (("light", light), ("heavy", heavy)):
        v = zz[:, sel, :].ravel()
        zv = (v.var(ddof=1) - 1) / math.sqrt(2 / len(v))
        if abs(zv) > 6:
            rec.viol(f"C14/refresh-variance-mass-dependent/{nm}", f"variance of p/sqrt(m kT) for {nm} atoms is {v.var():.4f}", {"T": T})
    # forced refresh hits the target temperature
    for _ in range(40):
        nn = int(rng.integers(2, 30))
        a2 = Atoms("H" * nn, positions=rng.uniform(0, 10, (nn, 3)))
        a2.set_masses(rng.uniform(1, 200, nn))
        ck = int(rng.integers(0, 6))
        if ck >= 3 and nn >= 3:
            # constraints remove degrees of freedom: the target is the kinetic temperature over the remaining ones
            from ase.constraints import FixAtoms, FixCom, FixedPlane

            cons = {3: [FixAtoms(indices=sorted(rng.choice(nn, size=int(rng.integers(1, nn - 1)), replace=False).tolist()))], 4: [FixCom()], 5: [FixedPlane(0, [0, 0, 1]), FixAtoms(indices=[nn - 1])]}[ck]
            a2.set_constraint(cons)
            rec.count("forced_refresh_with_constraints")
        T2 = float(10 ** rng.uniform(0, 4))
        c2 = make_ctx(a2, derive_seed("f", int(rng.integers(1, 2**40))), T2)
        maxwell_boltzmann_distribution(c2, forced=True)
        rec.count("forced_refresh")
        rec.evaluations += 1
        got = 2 * a2.get_kinetic_energy() / (a2.get_number_of_degrees_of_freedom() * KB * T2)
        if abs(got - 1) > 1e-9:
            rec.viol("C14/forced-refresh-off-target", f"forced refresh gives kinetic temperature {got!r} x target", {"T": T2, "natoms": nn, "constraints": [type(c).__name__ for c in a2.constraints]})


def run_hmc(spec, rec):
    from ase import Atoms

    from quansino.mc.canonical import HamiltonianCanonical
    from quansino.mc.criteria import HamiltonianCanonicalCriteria
    from quansino.moves.displacement import HamiltonianDisplacementMove
    from quansino.integrators.displacement import Verlet
    from quansino.utils.dynamics import maxwell_boltzmann_distribution
    from qv.lib import trace

    rng = rng_for("C14h", spec["seed"], spec["j"])
    rec_state = {"ke": None, "n": 0}
    dist_kind = ["shipped", "hand-written", "shipped-then-stationary"][spec["j"] % 3]

    def recording_distribution(context):
        before = context.atoms.get_momenta().copy()
        if dist_kind == "shipped":
            maxwell_boltzmann_distribution(context)
        elif dist_kind == "shipped-then-stationary":
            # the shipped draw post-processed by the user's callable (net drift removed, as ase's Stationary does)
            maxwell_boltzmann_distribution(context)
            m_ = context.atoms.get_masses()
            p_ = context.atoms.get_momenta()
            context.atoms.set_momenta(p_ - m_[:, None] * p_.sum(0) / m_.sum())
        else:
            # the user's own refresh, written out by hand with the simulation's generator
            m_ = context.atoms.get_masses()
            context.atoms.set_momenta(context.rng.normal(size=(len(m_), 3)) * np.sqrt(m_ * KB * context.temperature)[:, None])
        rec.count("refreshes_by_" + dist_kind)
        after = context.atoms.get_momenta()
        # "draws every component": a component that kept its value was not drawn (a continuous draw never repeats one)
        kept = int((after == before).sum()) if before.shape == after.shape and np.abs(before).max() > 0 else 0
        rec.count("refresh_components_watched", after.size)
        if kept:
            rec.viol("C14/refresh-leaves-components-undrawn", f"{kept} of {after.size} momentum components kept their value through a momentum refresh", {"natoms": len(context.atoms), "kept": kept})
        rec_state["ke"] = float(context.atoms.get_kinetic_energy())
        rec_state["n"] += 1

    orig_eval = HamiltonianCanonicalCriteria.__dict__["evaluate"].__func__

    def evaluate(context):
        rec.count("ke_checked_at_criteria")
        fresh = rec_state["ke"]
        used = getattr(context, "last_kinetic_energy", None)
        if fresh is not None and (used is None or abs(used - fresh) > 1e-12 * max(1.0, abs(fresh))):
            rec.viol("C14/stale-kinetic-energy-at-criteria", f"criteria is given kinetic energy {used!r}, freshly drawn momenta have {fresh!r}", {"used": used, "fresh": fresh})
        return orig_eval(context)

    HamiltonianCanonicalCriteria.evaluate = staticmethod(evaluate)
    n = int(rng.integers(2, 6))
    sites = rng.uniform(2, 8, (n, 3))
    atoms = Atoms("H" * n, positions=sites + rng.normal(scale=0.1, size=(n, 3)))
    atoms.set_masses(rng.uniform(1, 50, n))
    k = 2.0
    atoms.calc = Harmonic(sites, k, quartic=1.0)
    omega = math.sqrt((k + 0.3) / atoms.get_masses().min())
    T = float([100.0, 300.0, 1500.0, 30.0][spec["j"] % 4])
    veto = spec["j"] % 2 == 1
    mc = HamiltonianCanonical(atoms, temperature=T, max_cycles=2, seed=derive_seed("hmc", spec["seed"], spec["j"]))
    mv = HamiltonianDisplacementMove(distribution=recording_distribution, operation=Verlet(dt=0.25 / omega / FS, max_steps=int(rng.integers(3, 25))))
    if veto:
        vr = np.random.default_rng(5)
        mv.check_move = lambda ctx: bool(vr.random() < 0.6)
    mc.add_move(mv, name="hmc")
    if spec["j"] % 2 == 0:
        # a single-particle displacement move in the same table (its own canonical criteria): whatever it leaves on the
        # context, the next refresh still draws every component
        from quansino.moves.displacement import DisplacementMove
        from quansino.operations.displacement import Ball

        mc.add_move(DisplacementMove(np.arange(n), Ball(0.05)), name="d")

    def on_trial(t):
        rec.count("hmc_trials")
        rec.evaluations += 1
        rec.case("hmc", T, veto, str(t.verdict))

    trace(mc, spec["steps"], on_trial=on_trial)
    rec.sample({"T": T, "natoms": n, "veto": veto, "momentum_refreshes": rec_state["n"], "acceptance_rate": float(mc.acceptance_rate)}, cap=1)


def run(spec):
    from qv import env

    env.import_quansino()
    rec = Rec(spec["name"])
    {"reverse": run_reverse, "order": run_order, "refresh": run_refresh, "hmc": run_hmc}[spec["mode"]](spec, rec)
    return rec.out()
