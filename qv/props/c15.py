"""C15 - observers fire on schedule and splitting a run does not change it.

Monitors: recording observers (user-defined Observer subclasses attached through the
public observer manager) log the step counter at every call; the real Logger,
TrajectoryObserver and RestartObserver write into in-memory file objects; `step` is
wrapped (class attribute) to count invocations.  Oracles: the call log of every observer
must equal the schedule computed from the statement; exactly one header, first; and for
every way of splitting n steps into consecutive run / srun / irun calls (zero-length
pieces included) the final state digest, step counter, observer logs and file contents
must equal those of a single run(n).
Splits are also executed with all generator objects prepared before the first is consumed, with one observer detached
and another attached between two pieces, and a simulation rebuilt from its dictionary is continued through each entry
point and must perform exactly the requested steps.
Observer sets also hold several observers of one class with the same interval: each one fires.
"""
from __future__ import annotations

import io
import itertools

import numpy as np

from qv.lib import Rec, derive_seed

LEVEL = "exploration"
EXHAUSTIVE = True
RULE = (
    "one evaluation = one complete execution of n steps split into a sequence of run/srun/irun calls; all compositions of n into <= 4 parts with zeros allowed "
    "(quick: n in {4,7}; thorough: every n <= 9 and n = 12), entry points cycled; distinct by (driver, n, composition, entry-point pattern); non-trivial when the split has >= 2 pieces"
)
ASSUMPTIONS = [
    "irun counts as fully iterated when every yielded step generator is itself exhausted by the caller",
    "a negative interval -n fires exactly once, after step n, if the run reaches step n",
    "srun exists on the Monte Carlo drivers only; force-bias drivers are driven through run and irun",
]
REQUIRED = {"logs_of_observers_equal_to_an_earlier_one": 100, "splits_with_observers_detached_and_attached": 100, "splits_prepared_before_use": 100, "rebuilt_continuations": 60, "splits_checked": 300, "zero_length_pieces": 100, "observer_logs_checked": 800, "negative_interval_logs": 200, "header_checks": 300, "step_invocations_counted": 1000}
SHARD_TIMEOUT = {"quick": 900, "thorough": 3000}

STEP_COUNT = {"n": 0}


def workloads():
    D = {"t": "D", "op": {"t": "Ball", "step": 0.4}}
    gas = {"kind": "gas", "n": 3, "edge": 7.0, "seed": 3}
    return {
        "Canonical": {"driver": "Canonical", "T": 600.0, "cycles": 2, "atoms": gas, "calc": {"kind": "soft"}, "table": [{"name": "d", "move": D}, {"name": "e", "move": D, "interval": 3}]},
        "GrandCanonical": {"driver": "GrandCanonical", "T": 2000.0, "mu": -0.05, "cycles": 2, "species": 1, "atoms": gas, "calc": {"kind": "soft"}, "table": [{"name": "x", "move": {"t": "E"}}, {"name": "d", "move": D}]},
        "Isobaric": {"driver": "Isobaric", "T": 800.0, "P": 0.01, "cycles": 2, "atoms": gas, "calc": {"kind": "soft"}, "table": [{"name": "c", "move": {"t": "C", "op": {"t": "Iso", "mv": 0.05}}}, {"name": "d", "move": D}]},
        "MonteCarlo": {"driver": "MonteCarlo", "cycles": 2, "atoms": gas, "calc": {"kind": "soft"}, "table": [{"name": "p", "move": {"t": "P"}, "criteria": "alternate"}]},
        "ForceBias": {"driver": "ForceBias", "T": 300.0, "delta": 0.1, "atoms": {"kind": "mixed", "n": 4, "edge": 8.0, "pbc": False, "seed": 6}, "calc": {"kind": "harmonic", "k": 1.0}},
        "HamiltonianCanonical": {"driver": "HamiltonianCanonical", "T": 500.0, "cycles": 1, "atoms": {"kind": "gas", "n": 3, "edge": 6.0, "pbc": False, "seed": 5}, "calc": {"kind": "harmonic", "k": 1.5}, "table": [{"name": "h", "move": {"t": "H", "dt": 2.0, "steps": 4}}]},
    }


def plan(tier, seed):
    ns = [4, 7] if tier == "quick" else [1, 2, 3, 4, 5, 6, 7, 8, 9, 12]
    specs = []
    for d in workloads():
        for n in ns:
            for li in ([1, 3] if tier == "quick" else [1, 2, 3, 7]):
                specs.append({"name": f"{d}-n{n}-L{li}", "driver": d, "n": n, "log_interval": li, "seed": seed})
    return specs


def compositions(n, maxparts):
    out = []
    for k in range(1, maxparts + 1):
        for cuts in itertools.combinations_with_replacement(range(n + 1), k - 1):
            parts = []
            prev = 0
            for c in cuts:
                parts.append(c - prev)
                prev = c
            parts.append(n - prev)
            out.append(tuple(parts))
    return out


def expected_calls(interval, total):
    if interval > 0:
        return [0] + [k for k in range(1, total + 1) if k % interval == 0]
    return [-interval] if -interval <= total and -interval >= 1 else []


def install_step_counter():
    from quansino.mc.core import MonteCarlo
    from quansino.mc.fbmc import ForceBias

    # AdaptiveForceBias.step delegates to ForceBias.step, so wrapping the two roots counts every step once
    for cls in (MonteCarlo, ForceBias):
        orig = cls.__dict__["step"]

        def step(self, _orig=orig):
            STEP_COUNT["n"] += 1
            return _orig(self)

        cls.step = step


# several observers may well have the same class and the same settings (two recorders with one interval): each fires
OBS_SETS = [(1, 2, 3, 7, -1, -2, -3, -7), (2, 3), (3, -4), (4, 6, -5), (2, 7, -3), (5,), (-2,), (3, 5, -7), (2, 4, -6), (6, -1), (2, 2), (3, -4, 3, -4), (1, 1, 1, -2, -2)]


def execute(w, seed, pieces, entries, log_interval, obs_set=OBS_SETS[0], default_observers=True, prepared=False, swap_after=None):
    from quansino.io.core import Observer

    from qv import sims

    class RecObs(Observer):
        def __init__(self, sim, interval):
            super().__init__(interval)
            self.sim = sim
            self.calls = []

        def __call__(self):
            self.calls.append(int(self.sim.step_count))

        def attach_simulation(self, *a, **k):
            pass

        def close(self):
            pass

    log, traj, rst = io.StringIO(), io.StringIO(), io.StringIO()
    kw = {"logging_interval": log_interval}
    is_mc = w["driver"] not in ("ForceBias", "AdaptiveForceBias")
    if default_observers:
        kw.update({"logfile": log, "trajectory": traj})
        if is_mc:
            kw["restart_file"] = rst
    mc, _ = sims.build({**w, "seed": seed}, **kw)
    obs = {}
    for k_, iv in enumerate(obs_set):
        o = RecObs(mc, iv)
        first = iv not in obs_set[:k_]
        mc.file_manager.attach_observer(f"rec{iv}" if first else f"rec{iv}again{k_}", o)
        obs[iv if first else f"{iv}#{k_}"] = o
    STEP_COUNT["n"] = 0
    yielded = 0
    if prepared:
        # the pieces prepared first and consumed afterwards (itertools.chain(mc.irun(a), mc.srun(b)) and the like): every
        # generator object exists before the first one is advanced
        gens = [(e, mc.srun(p) if e == "srun" and is_mc else mc.irun(p)) for p, e in zip(pieces, entries)]
        for e, g in gens:
            for step in g:
                yielded += 1
                if is_mc and e != "srun":
                    for _ in step:
                        pass
        pieces, entries = (), ()
    swapped = None
    for pi, (p, e) in enumerate(zip(pieces, entries)):
        if swap_after is not None and pi == swap_after + 1 and swapped is None:
            # between two pieces: one observer detached, another attached (documented file-manager calls); the first must
            # fall silent, the second fire from the next step on
            iv0 = obs_set[0]
            mc.file_manager.detach_observer(f"rec{iv0}")
            late = RecObs(mc, 1)
            mc.file_manager.attach_observer("late", late)
            obs["late"] = late
            swapped = {"detached": iv0, "at_step": int(mc.step_count)}
        if e == "run" or not is_mc and e == "srun":
            mc.run(p)
            yielded += p
        elif e == "srun":
            for _ in mc.srun(p):
                yielded += 1
        else:
            for step in mc.irun(p):
                yielded += 1
                if is_mc:
                    for _ in step:
                        pass
    return {
        "digest": sims.state_digest(mc),
        "step_count": int(mc.step_count),
        "calls": {iv: list(o.calls) for iv, o in obs.items()},
        "log": log.getvalue(),
        "traj": traj.getvalue(),
        "rst": rst.getvalue(),
        "steps_invoked": STEP_COUNT["n"],
        "yielded": yielded,
        "swapped": swapped,
    }


def run(spec):
    from qv import env

    env.import_quansino()
    install_step_counter()
    rec = Rec(spec["name"])
    w = workloads()[spec["driver"]]
    n, li = spec["n"], spec["log_interval"]
    seed = derive_seed("c15", spec["seed"], spec["driver"])
    refs = {}
    comps = compositions(n, 4)
    entries_all = ["run", "srun", "irun"]
    for ci, parts in enumerate(comps):
        entries = tuple(entries_all[(ci + j) % 3] for j in range(len(parts)))
        # which user observers are attached varies from execution to execution (several observers with unrelated
        # intervals, with and without the package's own default observers at the logging interval)
        obs_set = OBS_SETS[ci % len(OBS_SETS)]
        defaults = (ci // len(OBS_SETS)) % 3 != 2
        rk = (obs_set, defaults)
        if rk not in refs:
            refs[rk] = execute(w, seed, (n,), ("run",), li, obs_set, defaults)
        ref = refs[rk]
        wit = {"driver": spec["driver"], "n": n, "pieces": list(parts), "entry_points": list(entries), "logging_interval": li, "observer_intervals": list(obs_set), "default_observers": defaults}
        prepared = len(parts) >= 2 and ci % 3 == 1
        if prepared:
            entries = tuple("irun" if e == "run" else e for e in entries)
            wit["entry_points"] = list(entries)
            wit["generators_prepared_before_use"] = True
            rec.count("splits_prepared_before_use")
        try:
            swap_after = 0 if (len(parts) >= 2 and not prepared and ci % 3 == 2) else None
            got = execute(w, seed, parts, entries, li, obs_set, defaults, prepared, swap_after)
        except Exception as ex:  # noqa: BLE001
            rec.viol(f"C15/raised/{type(ex).__name__}", f"split run raised {type(ex).__name__}: {ex}", wit)
            continue
        rec.evaluations += 1
        rec.count("splits_checked")
        zeros = sum(1 for p in parts if p == 0)
        rec.count("zero_length_pieces", zeros)
        if len(parts) >= 2:
            rec.case(spec["driver"], n, parts, entries, li)
        shape = "zero-length-first-call" if parts[0] == 0 and len(parts) > 1 else ("zero-length-later-call" if zeros and len(parts) > 1 else ("split" if len(parts) > 1 else "single"))
        # 1. observers on schedule
        sw = got.get("swapped")
        if sw:
            rec.count("splits_with_observers_detached_and_attached")
        for iv, calls in got["calls"].items():
            rec.count("observer_logs_checked")
            if iv == "late":
                exp = list(range(sw["at_step"] + 1, n + 1))
                if calls != exp:
                    rec.viol(f"C15/observer-schedule/attached-between-runs/{shape}", f"an observer of interval 1 attached after step {sw['at_step']} was called at steps {calls}, expected {exp}", {**wit, "calls": calls, "expected": exp})
                continue
            key_ = iv
            if isinstance(iv, str):  # a second observer with the same class and settings as an earlier one
                iv = int(iv.split("#")[0])
                rec.count("logs_of_observers_equal_to_an_earlier_one")
            if iv < 0:
                rec.count("negative_interval_logs")
            exp = expected_calls(iv, n)
            if sw and key_ == sw["detached"]:
                exp = [x for x in exp if x <= sw["at_step"]]
            if calls != exp:
                sign = "positive" if iv > 0 else "negative"
                rec.viol(f"C15/observer-schedule/{sign}-interval/{shape}", f"observer with interval {iv} was called at steps {calls}, expected {exp}", {**wit, "interval": iv, "calls": calls, "expected": exp})
        # 2. header once, first; one row per scheduled call
        lines = got["log"].splitlines()
        if not defaults:
            lines = None
        rec.count("header_checks")
        if lines is not None:
            # the header is whatever the first line says (its wording is not fixed by the property); it must not recur
            hdr = [i for i, ln in enumerate(lines) if ln == lines[0]] if lines else []
            if hdr != [0]:
                rec.viol(f"C15/header/{shape}", f"log header appears at lines {hdr} (expected exactly once, first)", {**wit, "log_head": lines[:4]})
            rows = len(lines) - len(hdr)
            if rows != len(expected_calls(li, n)):
                rec.viol(f"C15/log-rows/{shape}", f"log has {rows} rows for {len(expected_calls(li, n))} scheduled logger calls", wit)
        # 3. exactly the requested number of steps
        rec.count("step_invocations_counted", got["steps_invoked"])
        if got["steps_invoked"] != n or got["step_count"] != n or got["yielded"] != n:
            rec.viol(f"C15/step-count/{shape}", f"requested {n} steps: step() invoked {got['steps_invoked']} times, counter {got['step_count']}, yielded {got['yielded']}", wit)
        # 4. splitting / entry points do not change anything
        for f in ("digest", "log", "traj", "rst"):
            if got[f] != ref[f]:
                rec.viol(f"C15/split-differs/{f}/{shape}", f"{f} after the split run differs from a single run({n})", {**wit, "entry_points": list(entries)})
                break
        rec.sample({**wit, "observer_calls": {str(k): v for k, v in got["calls"].items()}}, cap=2)
    # 5. a simulation rebuilt from its dictionary in the middle (the documented restart route) and continued through each
    #    entry point performs exactly the requested number of further steps and ends where the single run ends
    if w["driver"] not in ("ForceBias", "AdaptiveForceBias") and n >= 2:
        from ase.io.jsonio import decode, encode

        from qv import sims

        ref = refs.get((OBS_SETS[0], True)) or execute(w, seed, (n,), ("run",), li)
        for a in sorted({1, n // 2}):
            for entry in entries_all:
                wit = {"driver": spec["driver"], "n": n, "rebuilt_after": a, "entry_point": entry}
                try:
                    mc, _ = sims.build({**w, "seed": seed})
                    mc.run(a)
                    mc2 = type(mc).from_dict(decode(encode(mc.to_dict())))
                    mc2.atoms.calc = sims.build_calc(w.get("calc", {}), sims.build_atoms(w.get("atoms", {}))[0])
                    STEP_COUNT["n"] = 0
                    if entry == "run":
                        mc2.run(n - a)
                    elif entry == "srun":
                        for _ in mc2.srun(n - a):
                            pass
                    else:
                        for step in mc2.irun(n - a):
                            for _ in step:
                                pass
                except Exception as ex:  # noqa: BLE001
                    rec.viol(f"C15/raised/{type(ex).__name__}", f"continuing a rebuilt simulation raised {type(ex).__name__}: {ex}", wit)
                    continue
                rec.evaluations += 1
                rec.count("rebuilt_continuations")
                if STEP_COUNT["n"] != n - a or int(mc2.step_count) != n:
                    rec.viol("C15/step-count/rebuilt-simulation", f"rebuilt at step {a} and asked for {n - a} more steps through {entry}: step() invoked {STEP_COUNT['n']} times, counter {int(mc2.step_count)}", wit)
                elif sims.state_digest(mc2) != ref["digest"]:
                    rec.viol("C15/split-differs/digest/rebuilt-simulation", f"rebuilt at step {a} and continued through {entry}: the final state differs from a single run({n})", wit)
    return rec.out()
