"""Seeded generator of simulation specs (for qv.sims.build) covering drivers x move tables x
labelings x per-atom arrays x constraints x calculator styles x criteria schedules x vetoes.
Used by C03, C04, C05, C12 (each attaches its own monitors)."""
from __future__ import annotations

import numpy as np

OPS_ATOM = [{"t": "Ball", "step": 0.4}, {"t": "Box", "step": 0.3}, {"t": "Sphere", "step": 0.35}, {"t": "Translation"}, [{"t": "Ball", "step": 0.2}, {"t": "Box", "step": 0.2}]]
OPS_MOL = OPS_ATOM + [{"t": "Rotation"}, {"t": "TranslationRotation"}, [{"t": "Box", "step": 0.2}, {"t": "Rotation"}]]
SCHEDULES = ["accept", "reject", "alternate", "runs", "random:0.5", "random:0.2", "random:0.8"]
VETOES = [None, None, None, "always", "first:1", "first:2", "random:0.5"]


def pick(rng, seq):
    return seq[int(rng.integers(len(seq)))]


def gen_atoms(rng, family, opts):
    mol = rng.random() < 0.45
    extras = [e for e in ["tags", "momenta", "charges", "i2", "f", "masses"] if rng.random() < 0.5]
    if family == "hamiltonian" and "momenta" not in extras:
        extras.append("momenta")
    a = {"seed": int(rng.integers(1, 10**6)), "edge": float(rng.uniform(6.5, 9.5)), "triclinic": bool(rng.random() < 0.4), "extras": extras}
    if mol:
        a.update({"kind": "molecules", "nmol": int(rng.integers(1, 4)), "molsize": int(pick(rng, [2, 3])), "framework": int(rng.integers(0, 3))})
    else:
        a.update({"kind": pick(rng, ["gas", "mixed"]), "n": int(rng.integers(2, 7))})
    cons = []
    if opts.get("constraints", True):
        r = rng.random()
        if family == "grand":
            if mol and a["framework"] and r < 0.6:
                cons = ["FixAtoms:framework"]
                a["fw_last"] = bool(rng.random() < 0.6)
            elif not mol and a["n"] >= 3 and r < 0.4:
                a["spectators_last"] = int(rng.integers(1, 3))
                cons = ["FixAtoms:framework"]
        elif r < 0.25:
            cons = ["FixAtoms:first1"]
        elif r < 0.4:
            cons = ["FixCom"]
    a["constraints"] = cons
    return a, mol


def d_move(rng, mol, opts, labels=None):
    m = {"t": "D", "op": pick(rng, OPS_MOL if mol else OPS_ATOM)}
    if labels is not None:
        m["labels"] = labels
    if opts.get("labelmods", True):
        r = rng.random()
        if r < 0.12:
            m["labelmod"] = "allneg"
        elif r < 0.3:
            m["labelmod"] = "someneg"
        elif r < 0.45:
            m["labelmod"] = pick(rng, ["gap", "rev"])
        elif r < 0.62 and opts.get("pairs", False):
            m["labelmod"] = "pairs"
    v = pick(rng, VETOES) if opts.get("vetoes", True) else None
    if v:
        m.update({"veto": v, "max_attempts": int(rng.integers(1, 4)), "salt": int(rng.integers(1000))})
    return m


def gen_table(rng, family, mol, opts):
    """-> list of table entries.  Every composite gets an explicit criteria."""
    real = {"canonical": "canonical", "hamiltonian": "hamiltonian", "isobaric": "isobaric", "isotension": "isotension", "grand": "grand"}[family]
    scripted = opts.get("scripted", True)

    def crit(default_real=None):
        if scripted and rng.random() < opts.get("p_scripted", 0.6):
            return pick(rng, SCHEDULES)
        return default_real

    entries = []
    n_entries = int(rng.integers(1, 4))
    for i in range(n_entries):
        r = rng.random()
        name = f"m{i}"
        if family in ("canonical", "hamiltonian"):
            if family == "hamiltonian" and (i == 0 or r < 0.4):
                mv = {"t": "H", "dt": float(rng.uniform(0.5, 4.0)), "steps": int(rng.integers(1, 8))}
                if opts.get("vetoes", True) and rng.random() < 0.3:
                    mv.update({"veto": pick(rng, ["always", "first:1", "random:0.5"]), "max_attempts": int(rng.integers(1, 4))})
                entries.append({"name": name, "move": mv, "criteria": crit()})
            elif r < 0.55:
                entries.append({"name": name, "move": d_move(rng, mol, opts), "criteria": crit()})
            elif r < 0.8:
                entries.append({"name": name, "move": {"t": "*", "part": d_move(rng, mol, opts), "n": int(rng.integers(1, 4))}, "criteria": crit("canonical")})
            else:
                entries.append({"name": name, "move": {"t": "+", "parts": [d_move(rng, mol, opts), d_move(rng, mol, opts)], "assoc": pick(rng, ["left", "right"])}, "criteria": crit("canonical")})
        elif family in ("isobaric", "isotension"):
            cop = {"t": pick(rng, ["Iso", "Aniso", "Shape"]), "mv": float(rng.uniform(0.01, 0.08))}
            cm = {"t": "C", "op": cop, "scale": bool(rng.random() < 0.7)}
            if opts.get("vetoes", True) and rng.random() < 0.25:
                cm.update({"veto": pick(rng, ["always", "first:1", "random:0.5"]), "max_attempts": int(rng.integers(1, 4))})
            if i == 0 or r < 0.4:
                entries.append({"name": name, "move": cm, "criteria": crit()})
            elif r < 0.7:
                entries.append({"name": name, "move": d_move(rng, mol, opts), "criteria": crit()})
            else:
                entries.append({"name": name, "move": {"t": "+", "parts": [cm, d_move(rng, mol, opts)]}, "criteria": crit(real)})
        else:  # grand
            eop = {"t": "TranslationRotation"} if opts.get("species", 1) > 1 else pick(rng, [None, {"t": "Translation"}])
            em = {"t": "E", "op": eop, "bias": float(pick(rng, [0.5, 0.5, 0.3, 0.7]))}
            if opts.get("labelmods", True) and rng.random() < 0.3:
                em["labelmod"] = pick(rng, ["gap", "rev"])
            if "default_label" in opts and rng.random() < 0.5:
                em["default_label"] = opts["default_label"]
            if opts.get("vetoes", True) and rng.random() < 0.2:
                em.update({"veto": pick(rng, ["always", "first:1", "random:0.5"]), "max_attempts": int(rng.integers(1, 4))})
            kinds = opts.get("grand_kinds", ["E", "E", "D", "E*2", "D+E", "E+E", "D*2+E", "same", "D+E+E", "swap"])
            k = "E" if i == 0 else pick(rng, kinds)
            if k == "E":
                entries.append({"name": name, "move": {**em, "id": f"e{i}"}, "criteria": crit()})
            elif k == "D":
                entries.append({"name": name, "move": d_move(rng, mol, opts), "criteria": crit()})
            elif k == "E*2":
                entries.append({"name": name, "move": {"t": "*", "part": em, "n": 2}, "criteria": crit("grand")})
            elif k == "E+E":
                entries.append({"name": name, "move": {"t": "+", "parts": [em, dict(em)]}, "criteria": crit("grand")})
            elif k == "D+E":
                entries.append({"name": name, "move": {"t": "+", "parts": [d_move(rng, mol, opts), em]}, "criteria": crit("grand") or "random:0.5"})
            elif k == "D*2+E":
                entries.append({"name": name, "move": {"t": "+", "parts": [{"t": "*", "part": d_move(rng, mol, opts), "n": 2}, em]}, "criteria": crit("grand") or "random:0.5"})
            elif k == "D+E+E":  # plain composite: the two exchange moves choose insertion/deletion independently
                entries.append({"name": name, "move": {"t": "+", "parts": [d_move(rng, mol, opts), em, {**em, "bias": 1.0 - em["bias"]}]}, "criteria": crit("grand") or "random:0.5"})
            elif k == "swap":  # number-conserving exchange: the first exchange move always deletes, the second always inserts
                entries.append({"name": name, "move": {"t": "+", "parts": [d_move(rng, mol, opts), {**em, "bias": 0.0}, {**em, "bias": 1.0}]}, "criteria": crit("grand") or "random:0.5"})
            elif k == "same":
                entries.append({"name": name, "move": {"t": "ref", "id": "e0"}, "criteria": crit()})
    for e in entries:
        if e.get("criteria") is None:
            e.pop("criteria", None)
        e["probability"] = float(pick(rng, [1.0, 1.0, 0.5, 2.0]))
    return entries


def gen(rng, family, **opts):
    driver = {"canonical": "Canonical", "hamiltonian": "HamiltonianCanonical", "isobaric": "Isobaric", "isotension": "Isotension", "grand": "GrandCanonical"}[family]
    atoms, mol = gen_atoms(rng, family, opts)
    species = 1
    if family == "grand":
        species = atoms.get("molsize", 1) if mol else 1
        opts = {**opts, "species": species}
    spec = {
        "driver": driver,
        "seed": int(rng.integers(1, 2**40)),
        "T": float(pick(rng, [50.0, 300.0, 1500.0, 6000.0])),
        "cycles": int(rng.integers(1, 4)),
        "atoms": atoms,
        "calc": {"kind": opts.get("calc", "soft"), "style": pick(rng, opts.get("styles", ["plain", "keyed"]))},
        "table": gen_table(rng, family, mol, opts),
        "ctor_defaults": bool(rng.random() < 0.3),
    }
    # scheduling variety: minimum counts (never over-committing the cycles) and intervals
    budget = spec["cycles"]
    for e in spec["table"]:
        if budget > 0 and rng.random() < 0.3:
            e["min"] = int(rng.integers(1, budget + 1))
            budget -= e["min"]
        if rng.random() < 0.2:
            e["interval"] = int(rng.integers(2, 4))
    if family == "hamiltonian":
        spec["calc"] = {"kind": "harmonic", "k": 1.5, "q": 0.3, "style": spec["calc"]["style"]}
        spec["atoms"]["pbc"] = False
    if family in ("isobaric", "isotension"):
        spec["P"] = float(pick(rng, [0.0, 0.005, 0.05]))
        if family == "isotension":
            s = rng.normal(size=(3, 3)) * 0.01
            spec["S"] = (0.5 * (s + s.T)).tolist()
    if family == "grand":
        spec["species"] = species
        spec["mu"] = float(pick(rng, [-0.3, -0.05, 0.0, 0.1]))
    return spec
