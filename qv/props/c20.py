"""C20 - drivers use custom moves and criteria only through the documented protocol.

Monitor: bare user-defined moves and criteria (plain classes inheriting from nothing in
the package) whose every attribute read and write is logged together with the calling
frame; only accesses made from package frames count.  Oracles: the access log is a subset
of the protocol members; a truthy move result sends the trial to the criteria and a falsy
one records it as not attempted; the user objects appear in the simulation's dictionary
and are rebuilt from it through the registry; and every accepted change of the atom count
or of the cell (made by the user move itself or by a shipped exchange / cell move next to
it) is followed by an on_atoms_changed / on_cell_changed notification to every member of
the move table, with index lists that match what really changed.
Criteria hand back varied truthy / falsy values (True, 1, numpy.True_ / False, 0,
numpy.False_, None); grand-canonical simulations also carry a shipped plain composite
that deletes a two-atom particle and inserts a one-atom one in the same trial.
Grand-canonical simulations also replace a table entry under its existing name in mid-run; every second user criteria
is falsy (empty) until its first decision.
Every other simulation registers new classes under the user components' names after the first rebuild and rebuilds
again: instances of the classes registered at that moment must come out.
The user's classes are registered under names of the user's choosing, not their __name__.
"""
from __future__ import annotations

import sys

import numpy as np

from qv.lib import Rec, derive_seed, rng_for, trace, vstr

LEVEL = "exploration"
RULE = (
    "one evaluation = one trial of a simulation whose move table contains bare protocol moves / criteria; distinct by (driver, behaviour of the bare move, value it returns, "
    "neighbouring shipped move, criteria kind, verdict); non-trivial = every trial in which the bare move was called or a notification was due"
)
ASSUMPTIONS = [
    "protocol members: __call__, evaluate, on_atoms_changed, on_cell_changed, to_dict, from_dict; plus what isinstance / repr / dataclasses need (__class__, __repr__, __dict__, __slots__, __module__, __doc__)",
    "only attribute accesses whose calling frame is inside the quansino package are attributed to the driver",
    "a notification may also be delivered when nothing changed; what is judged is that one IS delivered (to every table member) after each accepted change",
    "bare moves change the cell only in Isobaric / Isotension (the drivers whose state includes the cell and which can revert it) and the atom count changes only in GrandCanonical (through the shipped exchange move next to the bare move)",
]
REQUIRED = {"rebuilds_after_reregistration": 60, "entries_replaced_under_their_name": 20, "accepted_swaps_changing_atom_count": 5, "bare_move_calls": 1500, "bare_criteria_calls": 500, "falsy_results": 300, "truthy_results": 300, "atom_count_changes": 100, "cell_changes": 100, "roundtrips": 12, "attribute_accesses_logged": 2000, "bare_criteria_verdicts_checked": 300}
SHARD_TIMEOUT = {"quick": 900, "thorough": 3000}

PROTOCOL = {"__call__", "evaluate", "on_atoms_changed", "on_cell_changed", "to_dict", "from_dict"}
TOLERATED = {"__class__", "__repr__", "__dict__", "__slots__", "__module__", "__doc__", "__str__", "__reduce_ex__", "__deepcopy__", "__copy__", "__getstate__", "__init_subclass__", "__eq__", "__hash__"}
ACCESS: list = []


def pkg_site():
    f = sys._getframe(2)
    fn = f.f_code.co_filename
    if "/quansino/" in fn and "/qv/" not in fn:
        return f"{fn.split('/quansino/')[-1]}:{f.f_code.co_name}"
    return None


class Logged:
    def __getattribute__(self, name):
        site = pkg_site()
        if site:
            ACCESS.append(("read", type(self).__name__, name, site))
        return object.__getattribute__(self, name)

    def __setattr__(self, name, value):
        site = pkg_site()
        if site:
            ACCESS.append(("write", type(self).__name__, name, site))
        object.__setattr__(self, name, value)


RESULTS = {"True": True, "1": 1, "str": "x", "np.True_": np.True_, "list": [0], "0": 0, "None": None, "empty-list": [], "np.False_": np.False_, "0.0": 0.0, "empty-str": ""}


# the names the user's classes are registered under (register_class(cls, name)) and write into their dictionaries: a
# registered name is the user's choice and need not be the class's __name__
MOVE_NAME = "user.move/v1"
CRIT_NAME = "user.criteria/v1"


class UserMove(Logged):
    """Implements only the protocol.  behaviour: displace | cell | insert | noop."""

    def __init__(self, behaviour="displace", result="True", tag=0):
        self.behaviour, self.result, self.tag = behaviour, result, tag
        self.calls = 0
        self.atoms_notes = []
        self.cell_notes = []

    def __call__(self, context):
        self.calls += 1
        self.changed = False
        atoms = context.atoms
        if not RESULTS[self.result] if not isinstance(RESULTS[self.result], np.ndarray) else False:
            return RESULTS[self.result]  # a move that reports failure leaves the system as it was
        self.changed = self.behaviour in ("cell", "shear") or (self.behaviour == "displace" and len(atoms) > 0)
        if self.behaviour == "displace" and len(atoms):
            atoms.positions[int(context.rng.integers(len(atoms)))] += context.rng.uniform(-0.2, 0.2, 3)
        elif self.behaviour == "cell":
            atoms.set_cell(atoms.cell.array * float(np.exp(context.rng.uniform(-0.03, 0.03))), scale_atoms=True)
        elif self.behaviour == "shear":  # volume-preserving change of the cell
            c = atoms.cell.array.copy()
            c[1] += float(context.rng.uniform(-0.05, 0.05)) * c[0]
            atoms.set_cell(c, scale_atoms=True)
        return RESULTS[self.result]

    def __eq__(self, other):  # value equality, as a dataclass would define it: two distinct moves may compare equal
        return isinstance(other, UserMove) and (self.behaviour, self.result) == (other.behaviour, other.result)

    def __hash__(self):
        return hash((self.behaviour, self.result))

    def on_atoms_changed(self, added_indices, removed_indices):
        self.atoms_notes.append((list(map(int, added_indices)), list(map(int, removed_indices))))

    def on_cell_changed(self, new_cell):
        self.cell_notes.append(np.array(new_cell, dtype=float))

    def to_dict(self):
        return {"name": MOVE_NAME, "kwargs": {"behaviour": self.behaviour, "result": self.result, "tag": self.tag}}

    @classmethod
    def from_dict(cls, data):
        return cls(**data.get("kwargs", {}))


class UserCriteria(Logged):
    def __init__(self, schedule="alternate", tag=0):
        self.schedule, self.tag = schedule, tag
        self.k = 0
        self.calls = 0

    # what the criteria hands back: protocol says bool; truthy / falsy values of other types must be routed alike
    ACCEPT = [True, 1, np.True_, "yes"]
    REJECT = [False, 0, np.False_, None, 0.0]

    def __len__(self):
        # a criteria that keeps a log of its decisions and reports how many there are: empty, hence falsy, until the
        # first trial (only for instances with an odd tag); nothing in the protocol lets the driver care
        return self.calls if self.tag % 2 else 1

    def evaluate(self, context):
        self.calls += 1
        self.k += 1
        if self.schedule == "accept":
            ok = True
        elif self.schedule == "reject":
            ok = False
        else:
            ok = self.k % 2 == 1
        pool = self.ACCEPT if ok else self.REJECT
        self.last = pool[(self.k + self.tag) % len(pool)]
        return self.last

    def to_dict(self):
        return {"name": CRIT_NAME, "kwargs": {"schedule": self.schedule, "tag": self.tag}}

    @classmethod
    def from_dict(cls, data):
        return cls(**data.get("kwargs", {}))


DRIVERS = ["MonteCarlo", "Canonical", "HamiltonianCanonical", "Isobaric", "Isotension", "GrandCanonical"]


def plan(tier, seed):
    specs = []
    for d in DRIVERS:
        for j in range(2 if tier == "quick" else 16):
            specs.append({"name": f"{d}{j}", "driver": d, "j": j, "seed": seed, "sims": 30 if tier == "quick" else 60, "steps": 25 if tier == "quick" else 60})
    return specs


def base_spec(driver, rng, seed):
    gas = {"kind": "gas", "n": int(rng.integers(2, 5)), "edge": 7.5, "seed": int(rng.integers(10**6)), "extras": ["momenta"]}
    s = {"driver": driver, "seed": seed, "T": 2000.0, "cycles": 3, "atoms": gas, "calc": {"kind": "soft"}, "table": []}
    if driver in ("Isobaric", "Isotension"):
        s["P"] = 0.01
    if driver == "HamiltonianCanonical":
        s["atoms"]["pbc"] = False
        s["calc"] = {"kind": "harmonic", "k": 1.0}
    if driver == "GrandCanonical":
        s["mu"] = 0.2
        s["species"] = 1
    return s


def run(spec):
    from qv import env

    env.import_quansino()
    from ase.io.jsonio import decode, encode

    from quansino.registry import get_class, register_class
    from qv import sims

    register_class(UserMove, MOVE_NAME)
    register_class(UserCriteria, CRIT_NAME)
    rec = Rec(spec["name"])
    driver = spec["driver"]
    rng = rng_for("C20", spec["seed"], spec["name"])
    results = list(RESULTS)
    for i in range(spec["sims"]):
        seed = derive_seed("c20", spec["seed"], spec["name"], i)
        s = base_spec(driver, rng, seed)
        neighbour = None
        if driver == "GrandCanonical" and i % 4 == 2:
            # a shipped composite that deletes a two-atom particle and then inserts a one-atom one in the same trial: the
            # atom count changes although the net number of exchanged particles does not
            neighbour = "swap-of-unequal-particles"
            s["atoms"] = {"kind": "molecules", "nmol": int(rng.integers(2, 4)), "molsize": 2, "framework": 0, "edge": 8.0, "seed": int(rng.integers(10**6)), "extras": ["momenta"]}
            s["table"].append({"name": "sw", "move": {"t": "+", "parts": [{"t": "D", "op": {"t": "Ball", "step": 0.2}}, {"t": "E", "bias": 0.0}, {"t": "E", "bias": 1.0}]}, "criteria": "random:0.7"})  # the displacement member makes it a plain composite
            s["table"].append({"name": "x", "move": {"t": "E", "bias": 0.8}, "criteria": "random:0.7"})
        elif driver == "GrandCanonical" and i % 2 == 0:
            neighbour = "exchange"
            s["table"].append({"name": "x", "move": {"t": "E"}, "criteria": "random:0.7"})
        if driver in ("Isobaric", "Isotension") and i % 2 == 0:
            neighbour = "cell"
            s["table"].append({"name": "c", "move": {"t": "C", "op": {"t": ["Aniso", "Shape", "Iso"][(i // 2) % 3], "mv": 0.03}}, "criteria": "random:0.7"})
        if driver == "HamiltonianCanonical" and i % 2 == 0:
            neighbour = "hamiltonian"
            s["table"].append({"name": "h", "move": {"t": "H", "dt": 1.0, "steps": 3}})
        try:
            mc, info = sims.build(s)
        except Exception as ex:  # noqa: BLE001
            rec.viol(f"C20/build-raised/{type(ex).__name__}", f"building {driver} raised {ex}"[:300], {"driver": driver})
            continue
        users = []
        nbare = int(rng.integers(1, 3))
        for b in range(nbare):
            behaviour = str(rng.choice(["displace", "displace", "cell", "shear", "noop"]))
            if driver not in ("Isobaric", "Isotension") and behaviour in ("cell", "shear"):
                behaviour = "displace"  # a cell change is a legitimate trial only in the ensembles whose state includes the cell
            res = results[(i + b * 5 + spec["j"] * 3) % len(results)]
            if b == 1 and i % 3 == 0:
                behaviour, res = users[0][3], users[0][4]  # a second, distinct move object that compares equal to the first
            mv = UserMove(behaviour, res, tag=b)
            crit_kind = str(rng.choice(["user", "user", "shipped"]))
            if crit_kind == "user" or driver == "MonteCarlo":
                crit = UserCriteria(str(rng.choice(["alternate", "accept", "reject"])), tag=b)
            else:
                crit = sims.make_criteria({"Canonical": "canonical", "HamiltonianCanonical": "canonical", "Isobaric": "isobaric", "Isotension": "isotension", "GrandCanonical": "canonical"}[driver])
            try:
                mc.add_move(mv, criteria=crit, name=f"user{b}", interval=1, probability=1.0, minimum_count=0)
            except Exception as ex:  # noqa: BLE001
                rec.viol(f"C20/add_move-raised/{driver}/{type(ex).__name__}", f"add_move refused a bare protocol move with an explicit criteria: {ex}"[:300], {"driver": driver})
                continue
            users.append((f"user{b}", mv, crit, behaviour, res, crit_kind))
        if not users:
            continue
        ACCESS.clear()
        wit0 = {"driver": driver, "neighbour": neighbour, "bare_moves": [(u[3], u[4], u[5]) for u in users], "seed": seed}
        st = {"calls": {u[0]: 0 for u in users}, "crit_calls": {u[0]: 0 for u in users}}

        def snap(m):
            return {"n": len(m.atoms), "cell": m.atoms.cell.array.copy(), "pos": m.atoms.positions.copy(), "notes": {u[0]: (len(u[1].atoms_notes), len(u[1].cell_notes)) for u in users}, "calls": {u[0]: (u[1].calls, getattr(u[2], "calls", None)) for u in users}}

        def on_trial(t):
            rec.evaluations += 1
            v = vstr(t.verdict)
            wit = {**wit0, "step": t.step, "trial": t.k, "move": t.name, "verdict": v}
            u = next((x for x in users if x[0] == t.name), None)
            if u is not None:
                name, mv, crit, behaviour, res, ck = u
                called = t.after["calls"][name][0] - t.before["calls"][name][0]
                rec.count("bare_move_calls", called)
                if called != 1:
                    rec.viol(f"C20/move-not-executed/{driver}", f"the bare move was called {called} times in its trial", wit)
                truthy = bool(RESULTS[res]) if not isinstance(RESULTS[res], np.ndarray) else True
                rec.count("truthy_results" if truthy else "falsy_results")
                ccalls = None
                if isinstance(crit, UserCriteria):
                    ccalls = t.after["calls"][name][1] - t.before["calls"][name][1]
                    rec.count("bare_criteria_calls", ccalls)
                # a falsy verdict of the bare criteria must undo the trial, a truthy one must keep it (drivers that
                # remember positions; the base driver's context does not)
                if truthy and isinstance(crit, UserCriteria) and ccalls == 1 and driver != "MonteCarlo":
                    restored = t.before["n"] == t.after["n"] and np.array_equal(t.before["pos"], t.after["pos"]) and np.array_equal(t.before["cell"], t.after["cell"])
                    rec.count("bare_criteria_verdicts_checked")
                    if not crit.last and not restored and getattr(mv, "changed", False):
                        rec.viol(f"C20/falsy-criteria-result-not-reverted/{type(crit.last).__name__}", f"the bare criteria returned {crit.last!r} (falsy) but the trial was not undone", wit)
                    if crit.last and restored and getattr(mv, "changed", False):
                        rec.viol(f"C20/truthy-criteria-result-reverted/{type(crit.last).__name__}", f"the bare criteria returned {crit.last!r} (truthy) but the trial was undone", wit)
                if truthy:
                    if t.verdict is None and not (isinstance(crit, UserCriteria) and ccalls == 1):
                        rec.viol(f"C20/truthy-result-not-sent-to-criteria/{res}", f"move returned {RESULTS[res]!r} (truthy) but the trial was recorded as not attempted", wit)
                    elif ccalls is not None and ccalls != 1:
                        rec.viol(f"C20/truthy-result-not-sent-to-criteria/{res}", f"move returned {RESULTS[res]!r} (truthy) but the criteria was evaluated {ccalls} times", wit)
                else:
                    if t.verdict is not None:
                        rec.viol(f"C20/falsy-result-not-recorded-as-not-attempted/{res}", f"move returned {RESULTS[res]!r} (falsy) but the trial was recorded as {v}", wit)
                    elif ccalls:
                        rec.viol(f"C20/falsy-result-not-recorded-as-not-attempted/{res}", f"move returned {RESULTS[res]!r} (falsy) but the criteria was evaluated", wit)
                rec.case(driver, behaviour, res, neighbour, ck, v)
            # notifications after accepted changes
            if t.verdict is True or (t.verdict not in (None, False) and bool(t.verdict)):
                dn = t.after["n"] - t.before["n"]
                if dn != 0:
                    rec.count("atom_count_changes")
                    if t.name == "sw":
                        rec.count("accepted_swaps_changing_atom_count")
                    for name, mv, *_ in users:
                        got = t.after["notes"][name][0] - t.before["notes"][name][0]
                        if got < 1:
                            rec.viol(f"C20/atoms-changed-not-notified/{driver}", f"atom count changed by {dn} in an accepted trial but the bare move '{name}' received no on_atoms_changed", wit)
                        else:
                            added, removed = mv.atoms_notes[-1]
                            if len(added) - len(removed) != dn:
                                rec.viol(f"C20/atoms-changed-wrong-indices/{driver}", f"atom count changed by {dn} but the notification carried added={added}, removed={removed}", wit)
                if not np.array_equal(t.before["cell"], t.after["cell"]):
                    rec.count("cell_changes")
                    by = "shipped-cell-move" if (u is None) else "bare-move"
                    for name, mv, *_ in users:
                        got = t.after["notes"][name][1] - t.before["notes"][name][1]
                        if got < 1:
                            rec.viol(f"C20/cell-changed-not-notified/{driver}/{by}", f"the cell changed in an accepted trial of '{t.name}' but the bare move '{name}' received no on_cell_changed", wit)
                        elif not np.allclose(mv.cell_notes[-1], t.after["cell"], rtol=0, atol=0):
                            rec.viol(f"C20/cell-changed-wrong-cell/{driver}", "on_cell_changed was given a cell that is not the new cell", wit)
            rec.sample(wit, cap=2)

        try:
            half = spec["steps"] // 2
            trace(mc, half, snap=snap, on_trial=on_trial)
            if i % 3 == 1:
                # an entry of the move table replaced under its existing name in the middle of the run (through add_move
                # or by assigning the entry's documented `move` attribute): the move now in the table is the one that
                # is executed and notified from here on
                name0, old_mv, crit0, beh0, res0, ck0 = users[0]
                new_mv = UserMove(beh0, res0, tag=old_mv.tag)
                if i % 2:
                    mc.add_move(new_mv, criteria=crit0, name=name0, interval=1, probability=1.0, minimum_count=0)
                else:
                    mc.moves[name0].move = new_mv
                users[0] = (name0, new_mv, mc.moves[name0].criteria if i % 2 else crit0, beh0, res0, ck0)
                rec.count("entries_replaced_under_their_name")
            trace(mc, spec["steps"] - half, snap=snap, on_trial=on_trial)
        except Exception as ex:  # noqa: BLE001
            import traceback

            tb = traceback.extract_tb(ex.__traceback__)
            fr = [f for f in tb if "/quansino/" in f.filename and "/qv/" not in f.filename]
            where = f"{fr[-1].filename.split('/quansino/')[-1]}:{fr[-1].name}" if fr else "?"
            rec.viol(f"C20/run-raised/{driver}/{type(ex).__name__}@{where}", f"simulation with a bare protocol move raised {type(ex).__name__}: {ex}"[:300], {**wit0, "traceback": traceback.format_exc()[-500:]})
        # serialization with the simulation
        try:
            data = decode(encode(mc.to_dict()))
            rec.count("roundtrips")
            for name, mv, crit, *_ in users:
                md = data.get("moves", {}).get(name, {}).get("kwargs", {})
                if md.get("move", {}).get("name") != MOVE_NAME or md.get("move", {}).get("kwargs", {}).get("tag") != mv.tag:
                    rec.viol(f"C20/not-serialized-with-simulation/{driver}", f"the bare move '{name}' is missing from the simulation's dictionary", {**wit0, "entry": md})
                if isinstance(crit, UserCriteria) and md.get("criteria", {}).get("name") != CRIT_NAME:
                    rec.viol(f"C20/not-serialized-with-simulation/{driver}", f"the bare criteria of '{name}' is missing from the simulation's dictionary", {**wit0, "entry": md})
            mc2 = get_class(data["name"]).from_dict(data)
            for name, mv, crit, *_ in users:
                st2 = mc2.moves.get(name)
                if st2 is None or type(st2.move) is not UserMove or st2.move.tag != mv.tag or st2.move.behaviour != mv.behaviour:
                    rec.viol(f"C20/not-rebuilt-from-dictionary/{driver}", f"the bare move '{name}' was not rebuilt from the simulation's dictionary", wit0)
                elif isinstance(crit, UserCriteria) and type(st2.criteria) is not UserCriteria:
                    rec.viol(f"C20/not-rebuilt-from-dictionary/{driver}", f"the bare criteria of '{name}' was not rebuilt", wit0)
            # the user's classes redefined under their names (a notebook cell run again, a class factory per run): what is
            # rebuilt from a dictionary afterwards is an instance of the class registered NOW
            if i % 2 == 0:
                NewMove = type("UserMove", (UserMove,), {"generation": i + 1})
                NewCriteria = type("UserCriteria", (UserCriteria,), {"generation": i + 1})
                register_class(NewMove, MOVE_NAME)
                register_class(NewCriteria, CRIT_NAME)
                try:
                    mc3 = get_class(data["name"]).from_dict(decode(encode(mc.to_dict())))
                    rec.count("rebuilds_after_reregistration")
                    for name, mv, crit, *_ in users:
                        st3 = mc3.moves.get(name)
                        if st3 is None or type(st3.move) is not NewMove:
                            rec.viol(f"C20/rebuilt-with-a-class-no-longer-registered/{driver}", f"after another class was registered under the name 'UserMove', the bare move '{name}' was rebuilt as {type(st3.move).__name__ if st3 is not None else None} of generation {getattr(getattr(st3, 'move', None), 'generation', 0)}", wit0)
                        elif isinstance(crit, UserCriteria) and type(st3.criteria) is not NewCriteria:
                            rec.viol(f"C20/rebuilt-with-a-class-no-longer-registered/{driver}", f"after another class was registered under the name 'UserCriteria', the bare criteria of '{name}' was rebuilt with the old class", wit0)
                finally:
                    register_class(UserMove, MOVE_NAME)
                    register_class(UserCriteria, CRIT_NAME)
        except Exception as ex:  # noqa: BLE001
            rec.viol(f"C20/serialization-raised/{driver}/{type(ex).__name__}", f"serializing / rebuilding a simulation with bare components raised {type(ex).__name__}: {ex}"[:300], wit0)
        # attribute discipline
        rec.count("attribute_accesses_logged", len(ACCESS))
        for kind, cls, name, site in ACCESS:
            if name in PROTOCOL or name in TOLERATED:
                continue
            rec.viol(f"C20/attribute-{kind}/{cls}.{name}@{site}", f"package code ({site}) {kind}s attribute '{name}' of a bare {cls}, which is not part of the protocol", {**wit0, "site": site})
        ACCESS.clear()
    return rec.out()
