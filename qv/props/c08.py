"""C08 - every shipped component survives serialization with its full configuration.

Monitor: for every public module of the package (found by walking the package on disk) a
fresh interpreter imports *that module first*; in the same interpreter every concrete
serializable class found by introspection is instantiated with non-default values,
converted with its own `to_dict`, pushed through ASE's JSON codec (text), looked up by
its registered name and rebuilt with `from_dict`.  Oracle: same type, equal value for
every constructor parameter that is an instance attribute and every documented tunable
(callables and per-move scratch attributes excepted), identical second-generation
dictionary.  Simulation-level settings are checked the same way on every driver that
offers to_dict/from_dict, after the generator and step counter have advanced.
Besides generic non-default values there is a deterministic boundary round (every
parameter that has a falsy boundary value takes it: probability 0.0, bias 0.0, default
label 0, False flags) and boundary draws in the random rounds; the live generators of
the original and the rebuilt simulation are compared as well.
Tunables are also set to values that are a sibling class's default; every object is rebuilt a second time from the same
dictionary, which must come out unchanged.
Composite moves also hold near-identical members (equal in everything but one label, or - for systems of more than a
thousand atoms - but labels away from both ends of the atom list).
Drivers are serialized through their dictionary and by handing the object to ASE's encoder (as the restart observer
does), with finite settings and with an infinite temperature / a chemical potential of minus infinity.
"""
from __future__ import annotations

import importlib
import math
import inspect
import os
import pkgutil
import re

import numpy as np

from qv import env
from qv.lib import Rec, derive_seed

LEVEL = "exploration"
EXHAUSTIVE = True
RULE = (
    "exhaustive over (public module imported first) x (concrete serializable class found by introspection); parameter values are fixed non-default values plus seeded random ones "
    "in the thorough tier; one evaluation = one class (or driver) round trip in one fresh interpreter; distinct by (first module, class); non-trivial = every round trip "
    "(all factories set non-default values for every constructor parameter)"
)
ASSUMPTIONS = [
    "concrete class = its action method (__call__/calculate/integrate/evaluate) is defined outside BaseMove/BaseOperation/BaseIntegrator/BaseCriteria and it is not a Protocol",
    "comparison set = constructor parameters that are instance attributes + names in the numpydoc Attributes sections of the class and its bases holding plain data; "
    "excluded: callables, context, composite_move_type, unique_labels, and the attributes documented as reset after each move",
    "JSON text is produced and parsed by ase.io.jsonio (the codec the restart observer uses)",
]
REQUIRED = {"driver_roundtrips_through_the_encoder": 50, "driver_roundtrips_with_infinite_settings": 50, "composites_with_near_identical_members": 100, "composites_with_members_over_1000_atoms": 50, "rebuilt_twice_from_one_dictionary": 300, "generator_states_compared": 50, "modules_imported_first": 20, "class_roundtrips": 300, "classes_discovered": 15, "driver_roundtrips": 50, "attributes_compared": 1000}
SHARD_TIMEOUT = {"quick": 600, "thorough": 1800}

EXCLUDE = {"context", "composite_move_type", "unique_labels", "check_move", "distribution", "to_displace_labels", "displaced_labels", "to_add_atoms", "to_delete_label", "exchange_atoms", "number_of_moved_particles", "strain_tensor"}
NESTED = {"operation", "operations", "moves", "move", "criteria", "translation", "rotation"}


COUNTS: dict[str, int] = {}


def list_modules():
    root = os.path.join(env.SRC, "quansino")
    mods = ["quansino"]
    for m in pkgutil.walk_packages([root], prefix="quansino."):
        mods.append(m.name)
    return sorted(mods)


def plan(tier, seed):
    return [{"name": f"first:{m}", "module": m, "seed": seed, "random_rounds": 3 if tier == "quick" else 150} for m in list_modules()]


# ----------------------------------------------------------------------------- discovery
def discover():
    import quansino
    from quansino.integrators.core import BaseIntegrator
    from quansino.mc.criteria import BaseCriteria
    from quansino.mc.driver import Driver
    from quansino.moves.composite import CompositeMove
    from quansino.moves.core import BaseMove
    from quansino.operations.composite import CompositeOperation
    from quansino.operations.core import BaseOperation
    from quansino.utils.moves import MoveStorage

    roots = {BaseMove: "__call__", BaseOperation: "calculate", BaseIntegrator: "integrate", BaseCriteria: "evaluate"}
    found, drivers = {}, {}
    for m in pkgutil.walk_packages(quansino.__path__, prefix="quansino."):
        try:
            mod = importlib.import_module(m.name)
        except Exception:  # noqa: BLE001  (import failures are judged by the import-first monitor)
            continue
        for nm, cls in vars(mod).items():
            if not inspect.isclass(cls) or not getattr(cls, "__module__", "").startswith("quansino."):
                continue
            if getattr(cls, "_is_protocol", False):
                continue
            if not (hasattr(cls, "to_dict") and hasattr(cls, "from_dict")):
                continue
            if issubclass(cls, Driver):
                drivers[cls.__name__] = cls
                continue
            cat = None
            if issubclass(cls, (CompositeMove,)):
                cat = "move"
            elif issubclass(cls, CompositeOperation):
                cat = "operation"
            elif cls is MoveStorage:
                cat = "storage"
            else:
                for root, action in roots.items():
                    if issubclass(cls, root):
                        impl = getattr(cls, action, None)
                        owner = next((k for k in cls.__mro__ if action in k.__dict__), None)
                        if impl is not None and owner not in roots:
                            cat = {"__call__": "move", "calculate": "operation", "integrate": "integrator", "evaluate": "criteria"}[action]
            if cat:
                found[cls.__name__] = (cls, cat)
    return found, drivers


# ----------------------------------------------------------------------------- factories (non-default values)
def factories(rng=None, boundary=False):
    import quansino.operations.cell as oc
    import quansino.operations.displacement as od
    from quansino.integrators.displacement import Verlet
    from quansino.mc import criteria as qc
    from quansino.moves.cell import CellMove
    from quansino.moves.composite import CompositeMove
    from quansino.moves.displacement import CompositeDisplacementMove, DisplacementMove, HamiltonianDisplacementMove
    from quansino.moves.exchange import CompositeExchangeMove, ExchangeMove
    from quansino.operations.composite import CompositeOperation
    from quansino.utils.moves import MoveStorage

    r = (lambda lo, hi: float(rng.uniform(lo, hi))) if rng is not None else None
    def f(default, lo, hi, edges=()):
        """Non-default float; with random factories a quarter of the draws take one of the documented boundary values
        (0.0 and 1.0 for probabilities and biases): falsy values are where truthiness tests in (de)serialisers bite."""
        if boundary and edges:
            return float(edges[0])  # the deterministic boundary round: every parameter that has a falsy boundary value takes it
        if not r:
            return default + 1.2345678912e-7  # not representable in few digits
        if edges and rng.random() < 0.25:
            return float(edges[int(rng.integers(len(edges)))])
        return r(lo, hi)

    def i(default, lo, hi, edges=()):
        """Non-default integer; `edges` are values that are the DEFAULT of a sibling class (10 attempts for the Hamiltonian
        move, 10000 for the others): a serialiser that omits "default" values must know whose default it is."""
        if boundary and edges:
            return int(edges[0])
        if rng is None:
            return default
        if edges and rng.random() < 0.25:
            return int(edges[int(rng.integers(len(edges)))])
        return int(rng.integers(lo, hi))

    b = lambda default: bool(rng.random() < 0.5) if rng is not None else default  # noqa: E731

    def mask():
        if rng is None:
            return np.array([[True, False, True], [False, True, False], [True, False, False]])
        m = rng.random((3, 3)) < 0.5
        m[0, 1] = not m[0, 0]  # never the all-True default
        return m

    def labels():
        if rng is None:
            return np.array([0, 0, 1, -1, 5])
        return rng.integers(-2, 6, int(rng.integers(1, 7)))

    def big_labels():
        """More than a thousand atoms: a frozen framework at both ends of the atom list, guests in between."""
        n = 1200 if rng is None else int(rng.integers(1001, 2600))
        lab = np.full(n, -1)
        lab[300 : n - 300] = np.arange(n - 600) % 7 if rng is None else rng.integers(0, 7, n - 600)
        return lab

    def twin(m, big):
        """A sibling that differs from m in nothing but its labels - for large systems only away from the ends of the
        atom list, otherwise in one element (two species moved by otherwise identical moves)."""
        import copy

        if big:
            m.set_labels(big_labels())
        t = copy.deepcopy(m)
        lab = np.array(m.labels, copy=True)
        k = len(lab) // 2
        lab[k] = lab[k] + 1 if lab[k] >= 0 else 0
        t.set_labels(lab)
        COUNTS["composites_with_near_identical_members"] = COUNTS.get("composites_with_near_identical_members", 0) + 1
        if big:
            COUNTS["composites_with_members_over_1000_atoms"] = COUNTS.get("composites_with_members_over_1000_atoms", 0) + 1
        return t

    def twins(parts):
        """Sometimes (always in the two deterministic rounds) the first member gets a near-identical sibling next to it."""
        if rng is not None and rng.random() > 0.4:
            return parts
        big = (not boundary) if rng is None else bool(rng.random() < 0.5)
        return [parts[0], twin(parts[0], big), *parts[1:]]

    def dmove(op=None):
        m = DisplacementMove(labels(), op or od.Box(f(0.21, 0.01, 2)), apply_constraints=b(False))
        m.default_label = 0 if boundary else (i(3, -2, 9) if rng is None or rng.random() < 0.8 else 0)
        m.max_attempts = i(7, 1, 50, (10, 1))
        return m

    def emove():
        m = ExchangeMove(labels(), od.TranslationRotation(), bias_towards_insert=f(0.3, 0.05, 0.95, (0.0, 1.0)), apply_constraints=b(False))
        m.default_label = 0
        m.max_attempts = i(7, 1, 50, (10, 1))
        return m

    def cmove():
        m = CellMove(oc.AnisotropicDeformation(f(0.03, 0.001, 0.3), mask=mask()), scale_atoms=b(False), apply_constraints=b(False))
        m.max_attempts = i(7, 1, 50)
        return m

    def hmove():
        m = HamiltonianDisplacementMove(operation=Verlet(dt=f(2.5, 0.1, 5), max_steps=i(7, 1, 50, (100, 1)), apply_constraints=b(False)))
        m.max_attempts = i(4, 1, 9, (10000, 1))
        return m

    def cexch():
        c = CompositeExchangeMove(twins([emove(), emove()]))
        c.bias_towards_insert = f(0.3, 0.05, 0.95, (0.0, 1.0))
        return c

    F = {
        "Ball": lambda: od.Ball(f(0.37, 0.01, 3)),
        "Box": lambda: od.Box(f(0.21, 0.01, 3)),
        "Sphere": lambda: od.Sphere(f(0.55, 0.01, 3)),
        "Translation": od.Translation,
        "Rotation": od.Rotation,
        "TranslationRotation": od.TranslationRotation,
        "IsotropicDeformation": lambda: oc.IsotropicDeformation(f(0.07, 0.001, 0.3), mask=mask()),
        "AnisotropicDeformation": lambda: oc.AnisotropicDeformation(f(0.03, 0.001, 0.3), mask=mask()),
        "ShapeDeformation": lambda: oc.ShapeDeformation(f(0.04, 0.001, 0.3), mask=mask()),
        "CompositeOperation": lambda: CompositeOperation([od.Ball(f(0.2, 0.01, 1)), CompositeOperation([od.Box(0.3), od.Rotation()]), od.Translation()]),
        "Verlet": lambda: Verlet(dt=f(2.5, 0.1, 5), max_steps=i(7, 1, 50), apply_constraints=b(False)),
        "DisplacementMove": dmove,
        "ExchangeMove": emove,
        "CellMove": cmove,
        "HamiltonianDisplacementMove": hmove,
        "CompositeMove": lambda: CompositeMove(twins([dmove(), CompositeDisplacementMove(twins([dmove(od.Sphere(0.4)), dmove()])), CompositeMove([cmove(), emove()])])),
        "CompositeDisplacementMove": lambda: CompositeDisplacementMove(twins([dmove(), dmove(od.Ball(0.11)), dmove(CompositeOperation([od.Ball(0.1), od.Box(0.2)]))])),
        "CompositeExchangeMove": cexch,
        "CanonicalCriteria": qc.CanonicalCriteria,
        "IsobaricCriteria": qc.IsobaricCriteria,
        "GrandCanonicalCriteria": qc.GrandCanonicalCriteria,
        "MoveStorage": lambda: MoveStorage(dmove(), qc.CanonicalCriteria(), interval=i(3, 1, 9), probability=f(0.4, 0.01, 5, (0.0,)), minimum_count=i(1, 0, 3)),
    }
    for nm in ("IsotensionCriteria", "HamiltonianCanonicalCriteria"):
        if hasattr(qc, nm):
            F[nm] = getattr(qc, nm)
    return F


def generic_factory(cls):
    """Signature-driven construction for classes the harness has no factory for (added later)."""
    sig = inspect.signature(cls.__init__)
    kw = {}
    for p in list(sig.parameters.values())[1:]:
        if p.default is not inspect._empty or p.kind in (p.VAR_POSITIONAL, p.VAR_KEYWORD):
            continue
        return None
    return lambda: cls(**kw)


# ----------------------------------------------------------------------------- comparison
def documented_attributes(cls):
    names = set()
    for k in cls.__mro__:
        doc = k.__dict__.get("__doc__") or ""
        m = re.search(r"Attributes\s*\n\s*-{3,}\s*\n(.*?)(\n\s*\n\s*[A-Z][A-Za-z ]+\n\s*-{3,}|\Z)", doc, re.S)
        if m:
            for line in m.group(1).splitlines():
                mm = re.match(r"^\s{0,8}([A-Za-z_][A-Za-z0-9_]*)\s*:", line)
                if mm:
                    names.add(mm.group(1))
    return names


def comparison_set(obj):
    cls = type(obj)
    names = set()
    try:
        for p in list(inspect.signature(cls.__init__).parameters)[1:]:
            names.add(p)
    except (TypeError, ValueError):
        pass
    names |= documented_attributes(cls)
    out = []
    for n in sorted(names):
        if n in EXCLUDE or n.startswith("_"):
            continue
        if not hasattr(obj, n):
            continue
        try:
            v = getattr(obj, n)
        except Exception:  # noqa: BLE001
            continue
        if callable(v) and not isinstance(v, np.ndarray) and n not in NESTED:
            continue
        out.append(n)
    return out


def plain_equal(a, b):
    if isinstance(a, np.ndarray) or isinstance(b, np.ndarray):
        a, b = np.asarray(a), np.asarray(b)
        return a.shape == b.shape and bool(np.array_equal(a, b))
    if isinstance(a, (list, tuple)) and isinstance(b, (list, tuple)):
        return len(a) == len(b) and all(plain_equal(x, y) for x, y in zip(a, b))
    if isinstance(a, dict) and isinstance(b, dict):
        return a.keys() == b.keys() and all(plain_equal(a[k], b[k]) for k in a)
    try:
        return bool(a == b)
    except Exception:  # noqa: BLE001
        return False


def compare(rec, a, b, path, top):
    """Recursive comparison of original a and rebuilt b.  Returns number of attributes compared."""
    if type(a) is not type(b):
        rec.viol(f"C08/type-changed/{top}/{type(a).__name__}->{type(b).__name__}", f"{path}: rebuilt object is a {type(b).__name__}, original a {type(a).__name__}", {"path": path})
        return 0
    n = 0
    for name in comparison_set(a):
        va, vb = getattr(a, name), getattr(b, name, "<missing>")
        if name in NESTED:
            if isinstance(va, (list, tuple)):
                if not isinstance(vb, (list, tuple)) or len(va) != len(vb):
                    rec.viol(f"C08/lost/{type(a).__name__}.{name}", f"{path}.{name}: {len(va)} elements became {vb!r}"[:300], {"path": path})
                    continue
                for k, (x, y) in enumerate(zip(va, vb)):
                    n += compare(rec, x, y, f"{path}.{name}[{k}]", top)
            else:
                n += compare(rec, va, vb, f"{path}.{name}", top)
            continue
        n += 1
        if not plain_equal(va, vb):
            rec.viol(f"C08/lost/{type(a).__name__}.{name}", f"{path}.{name}: {va!r} became {vb!r} after the round trip"[:400], {"path": path, "class": type(a).__name__, "attribute": name, "original": va, "rebuilt": vb})
    return n


def roundtrip(rec, obj, top):
    from ase.io.jsonio import decode, encode

    from quansino.registry import get_class

    cname = type(obj).__name__
    try:
        d1 = obj.to_dict()
        text = encode(d1)
    except Exception as ex:  # noqa: BLE001
        rec.viol(f"C08/to_dict-raised/{cname}/{type(ex).__name__}", f"{cname}.to_dict / JSON encoding raised {type(ex).__name__}: {ex}"[:300], {"class": cname})
        return None
    data = decode(text)
    try:
        cls = get_class(data["name"])
    except KeyError:
        rec.viol(f"C08/unregistered/{cname}", f"{cname} serialises under the name {data.get('name')!r}, which is not in the registry", {"class": cname})
        return None
    try:
        obj2 = cls.from_dict(data)
    except Exception as ex:  # noqa: BLE001
        inner = re.findall(r"Class `(\w+)` not registered", str(ex))
        if inner:
            rec.viol(f"C08/unregistered/{inner[0]}", f"rebuilding {cname} failed: {inner[0]} is not in the registry", {"class": cname})
        else:
            rec.viol(f"C08/from_dict-raised/{cname}/{type(ex).__name__}", f"{cname}.from_dict raised {type(ex).__name__}: {ex}"[:300], {"class": cname, "dict": d1})
        return None
    n = compare(rec, obj, obj2, cname, top)
    rec.count("attributes_compared", n)
    try:
        t2 = encode(obj2.to_dict())
        if t2 != text:
            rec.viol(f"C08/second-generation-differs/{cname}", f"serializing the rebuilt {cname} gives a different dictionary", {"first": text[:400], "second": t2[:400]})
    except Exception as ex:  # noqa: BLE001
        rec.viol(f"C08/to_dict-raised/{cname}/{type(ex).__name__}", f"rebuilt {cname}.to_dict raised {ex}"[:300], {"class": cname})
    # one stored dictionary, several objects (a template per replica): rebuilding must not consume the dictionary
    try:
        rec.count("rebuilt_twice_from_one_dictionary")
        if encode(data) != text:
            rec.viol(f"C08/from_dict-modifies-its-input/{cname}", f"{cname}.from_dict changed the dictionary it was given", {"before": text[:300], "after": encode(data)[:300]})
        obj3 = cls.from_dict(data)
        t3 = encode(obj3.to_dict())
        if t3 != text:
            rec.viol(f"C08/second-rebuild-from-same-dictionary-differs/{cname}", f"a second {cname} rebuilt from the same dictionary serializes differently", {"first": text[:400], "second_rebuild": t3[:400]})
    except Exception as ex:  # noqa: BLE001
        rec.viol(f"C08/from_dict-raised/{cname}/{type(ex).__name__}", f"rebuilding {cname} a second time from the same dictionary raised {type(ex).__name__}: {ex}"[:300], {"class": cname})
    return obj2


# ----------------------------------------------------------------------------- drivers
def driver_specs():
    D = {"t": "D", "op": {"t": "Box", "step": 0.33}}
    gas = {"kind": "gas", "n": 4, "edge": 7.0, "seed": 3, "extras": ["tags", "momenta"]}
    return {
        "MonteCarlo": {"driver": "MonteCarlo", "cycles": 3, "atoms": gas, "calc": {"kind": "soft"}, "table": [{"name": "p", "move": {"t": "P"}, "criteria": "alternate", "interval": 2, "probability": 0.7}]},
        "Canonical": {"driver": "Canonical", "T": 432.1, "cycles": 3, "atoms": gas, "calc": {"kind": "soft"}, "table": [{"name": "d", "move": D, "interval": 2, "probability": 0.7, "min": 1}, {"name": "r", "move": {"t": "D", "op": [{"t": "Ball", "step": 0.2}, {"t": "Box", "step": 0.1}]}}]},
        "HamiltonianCanonical": {"driver": "HamiltonianCanonical", "T": 512.3, "cycles": 2, "atoms": {"kind": "gas", "n": 3, "edge": 6.0, "pbc": False, "seed": 5}, "calc": {"kind": "harmonic", "k": 1.5}, "table": [{"name": "h", "move": {"t": "H", "dt": 2.0, "steps": 4}}]},
        "Isobaric": {"driver": "Isobaric", "T": 812.5, "P": 0.0123, "cycles": 3, "atoms": gas, "calc": {"kind": "soft"}, "table": [{"name": "c", "move": {"t": "C", "op": {"t": "Aniso", "mv": 0.04, "mask": [[1, 0, 0], [0, 1, 0], [0, 0, 0]]}, "scale": False}}, {"name": "d", "move": D}]},
        "Isotension": {"driver": "Isotension", "T": 812.5, "P": 0.0123, "S": [[0.01, 0.002, 0], [-0.001, 0.0, 0.003], [0, 0, -0.01]], "cycles": 3, "atoms": gas, "calc": {"kind": "soft"}, "table": [{"name": "c", "move": {"t": "C", "op": {"t": "Shape", "mv": 0.04}}}, {"name": "d", "move": D}]},
        "GrandCanonical": {"driver": "GrandCanonical", "T": 1512.5, "mu": -0.0456, "nexch": 4, "cycles": 3, "species": 2, "atoms": gas, "calc": {"kind": "soft"}, "table": [{"name": "x", "move": {"t": "E", "op": {"t": "TranslationRotation"}, "bias": 0.4}}, {"name": "d", "move": D}]},
    }


def check_driver(rec, dname, cls, first, via="to_dict", nonfinite=False):
    from ase.io.jsonio import decode, encode

    from quansino.registry import get_class
    from qv import sims

    spec = driver_specs().get(dname)
    if spec is None:
        rec.count("driver_without_harness_spec")
        return
    try:
        mc, _ = sims.build({**spec, "seed": derive_seed("c08", dname)})
        if dname == "GrandCanonical":
            mc.accessible_volume = 123.456
        mc.run(3)
        if nonfinite:
            # settings that are legitimately infinite: an infinite temperature accepts everything (randomising a
            # configuration), a chemical potential of minus infinity drains the box
            if dname == "GrandCanonical":
                mc.chemical_potential = -math.inf
            elif hasattr(mc, "temperature") and dname != "HamiltonianCanonical":
                mc.temperature = math.inf
            else:
                return
            rec.count("driver_roundtrips_with_infinite_settings")
    except Exception as ex:  # noqa: BLE001
        rec.viol(f"C08/driver/{dname}/run-raised/{type(ex).__name__}", f"building/running {dname} raised {ex}"[:300], {})
        return
    rec.evaluations += 1
    rec.count("driver_roundtrips")
    rec.case(first, "driver", dname, via, nonfinite)
    try:
        d1 = mc.to_dict()
        # the dictionary encoded by the script, or the simulation object handed to ASE's JSON encoder (which is what the
        # restart observer and write_json do: the encoder asks the object for its dictionary itself)
        text = encode(d1) if via == "to_dict" else encode(mc)
        if via != "to_dict":
            rec.count("driver_roundtrips_through_the_encoder")
        data = decode(text)
    except Exception as ex:  # noqa: BLE001
        rec.viol(f"C08/driver/{dname}/to_dict-raised/{type(ex).__name__}", f"{dname}.to_dict / encoding raised {ex}"[:300], {})
        return
    try:
        kls = get_class(data["name"])
    except KeyError:
        rec.viol(f"C08/unregistered/{dname}", f"driver {dname} is not in the registry", {})
        kls = cls
    try:
        mc2 = kls.from_dict(data)
    except Exception as ex:  # noqa: BLE001
        inner = re.findall(r"Class `(\w+)` not registered", str(ex))
        if inner:
            rec.viol(f"C08/unregistered/{inner[0]}", f"rebuilding driver {dname} failed: {inner[0]} is not in the registry", {})
        else:
            rec.viol(f"C08/driver/{dname}/from_dict-raised/{type(ex).__name__}", f"{dname}.from_dict raised {type(ex).__name__}: {ex}"[:300], {})
        return
    settings = ["temperature", "pressure", "external_stress", "chemical_potential", "number_of_exchange_particles", "accessible_volume", "max_cycles", "step_count"]
    for s in settings:
        if hasattr(mc, s):
            rec.count("attributes_compared")
            if not plain_equal(getattr(mc, s), getattr(mc2, s, "<missing>")):
                rec.viol(f"C08/driver/{dname}/lost/{s}", f"{dname}.{s}: {getattr(mc, s)!r} became {getattr(mc2, s, '<missing>')!r}"[:300], {"driver": dname, "setting": s})
    # generator state: the live generators themselves (not the dictionaries, which could both lack it)
    g1, g2 = getattr(getattr(mc, "context", None), "rng", None), getattr(getattr(mc2, "context", None), "rng", None)
    if g1 is not None:
        rec.count("generator_states_compared")
        if g2 is None or not plain_equal(g1.bit_generator.state, g2.bit_generator.state):
            rec.viol(f"C08/driver/{dname}/lost/generator-state", f"{dname}: the rebuilt simulation's generator is not in the state of the original's", {"driver": dname})
    if hasattr(mc, "exchange_atoms"):
        a, b = mc.exchange_atoms, mc2.exchange_atoms
        if list(a.symbols) != list(b.symbols) or not np.array_equal(a.positions, b.positions):
            rec.viol(f"C08/driver/{dname}/lost/exchange_atoms", "exchange species differs after the round trip", {})
    try:
        d2 = mc2.to_dict()
        for k in ("rng_state",):
            if not plain_equal(d1.get(k), d2.get(k)):
                rec.viol(f"C08/driver/{dname}/lost/{k}", f"{dname}: {k} differs after the round trip", {})
        if d1.get("kwargs", {}).get("seed") != d2.get("kwargs", {}).get("seed"):
            rec.viol(f"C08/driver/{dname}/lost/seed", "seed differs after the round trip", {})
        if encode(d2) != encode(d1):
            rec.viol(f"C08/driver/{dname}/second-generation-differs", f"serializing the rebuilt {dname} gives a different dictionary", {"first": text[:300], "second": encode(d2)[:300]})
    except Exception as ex:  # noqa: BLE001
        rec.viol(f"C08/driver/{dname}/to_dict-raised/{type(ex).__name__}", f"rebuilt {dname}.to_dict raised {ex}"[:300], {})
    # move table entries
    for name, st in mc.moves.items():
        st2 = mc2.moves.get(name)
        if st2 is None:
            rec.viol(f"C08/driver/{dname}/lost/move-entry", f"move table entry {name} missing after the round trip", {})
            continue
        rec.count("attributes_compared", compare(rec, st, st2, f"{dname}.moves[{name}]", dname))


def run(spec):
    env.setup_path()
    rec = Rec(spec["name"])
    first = spec["module"]
    try:
        importlib.import_module(first)
        rec.count("modules_imported_first")
    except Exception as ex:  # noqa: BLE001
        top = first.split(".")[1] if "." in first else first
        rec.viol(f"C08/import-first/{type(ex).__name__}/quansino.{top}", f"`import {first}` as the first import of a fresh interpreter raised {type(ex).__name__}: {ex}"[:400], {"module": first})
    rec.evaluations += 1
    try:
        env.import_quansino()
    except Exception as ex:  # noqa: BLE001
        rec.viol("C08/import-first/package-unusable", f"after importing {first} first the package cannot be imported at all: {ex}"[:300], {"module": first})
        return rec.out()
    from qv import sims

    sims.register_scripted()
    found, drivers = discover()
    rec.count("classes_discovered", len(found))
    rec.data["classes"] = sorted(found)
    rounds = [None, "boundary"] + [np.random.Generator(np.random.PCG64(derive_seed("c08", spec["seed"], first, k))) for k in range(spec["random_rounds"])]
    for rng in rounds:
        boundary = isinstance(rng, str)
        if boundary:
            rng = None
        F = factories(rng, boundary=boundary)
        for cname, (cls, cat) in sorted(found.items()):
            fac = F.get(cname) or generic_factory(cls)
            if fac is None:
                rec.count("class_without_factory")
                rec.inconclusive.append(f"no way to construct discovered class {cname}") if rng is None else None
                continue
            try:
                obj = fac()
            except Exception as ex:  # noqa: BLE001
                rec.inconclusive.append(f"factory for {cname} failed: {ex}")
                continue
            rec.evaluations += 1
            rec.count("class_roundtrips")
            rec.case(first, cname)
            roundtrip(rec, obj, cname)
            if rng is None:
                rec.sample({"first_module": first, "class": cname, "category": cat, "compared": comparison_set(obj)}, cap=3)
    for k_, v_ in COUNTS.items():
        rec.count(k_, v_)
    for dname, cls in sorted(drivers.items()):
        check_driver(rec, dname, cls, first)
        check_driver(rec, dname, cls, first, via="encoder")
        check_driver(rec, dname, cls, first, via="encoder", nonfinite=True)
        check_driver(rec, dname, cls, first, via="to_dict", nonfinite=True)
    return rec.out()
