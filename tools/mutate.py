#!/venv/bin/python
"""tools/mutate.py - small mutation-testing driver used to look for gaps in the checks.

For every candidate mutation of /repo/src/quansino (AST-located: comparison / arithmetic / boolean operator swaps,
numeric-constant tweaks, True<->False, statement deletion) it writes the mutant into a scratch copy of the sources,
runs the quick tier of the checks that are relevant to the mutated file against it (QV_REPO) and records which
checks reported a VIOLATION.  Survivors are either behaviourally equivalent or a gap worth a new workload/oracle.

usage: tools/mutate.py [--files glob,...] [--max N] [--seed S] [--out FILE] [--resume]
The scratch tree lives under /tmp and is removed at the end; nothing in /repo or in evidence/ is touched.
"""
from __future__ import annotations

import argparse
import ast
import fnmatch
import json
import os
import random
import shutil
import subprocess
import sys
import time

VERIF = os.path.dirname(os.path.dirname(os.path.abspath(__file__)))
SRC = "/repo/src/quansino"

RELEVANT = {
    "mc/core.py": ["C09", "C03", "C20", "C15", "C07", "C08"],
    "mc/criteria.py": ["C02"],
    "mc/contexts.py": ["C03", "C04", "C05", "C07", "C14"],
    "mc/canonical.py": ["C04", "C03", "C02", "C07", "C08"],
    "mc/isobaric.py": ["C20", "C03", "C04", "C02", "C08"],
    "mc/isotension.py": ["C02", "C08", "C07"],
    "mc/gcmc.py": ["C05", "C03", "C04", "C20", "C02", "C07"],
    "mc/driver.py": ["C15", "C06", "C16", "C07", "C08"],
    "mc/fbmc.py": ["C13", "C18", "C12", "C06"],
    "moves/core.py": ["C17", "C08", "C11", "C03"],
    "moves/composite.py": ["C17", "C08", "C05", "C07"],
    "moves/displacement.py": ["C11", "C03", "C05", "C12", "C14", "C08"],
    "moves/exchange.py": ["C05", "C03", "C04", "C08", "C02"],
    "moves/cell.py": ["C03", "C08", "C04"],
    "operations/core.py": ["C17", "C08", "C10"],
    "operations/composite.py": ["C17", "C10", "C08"],
    "operations/displacement.py": ["C10", "C11", "C08"],
    "operations/cell.py": ["C10", "C08"],
    "integrators/core.py": ["C08", "C14"],
    "integrators/displacement.py": ["C14", "C12", "C08"],
    "io/core.py": ["C16", "C15"],
    "io/logger.py": ["C16", "C15"],
    "io/restart.py": ["C16", "C07"],
    "io/trajectory.py": ["C16"],
    "io/file.py": ["C15", "C16"],
    "utils/atoms.py": ["C19", "C03", "C05"],
    "utils/dynamics.py": ["C14"],
    "utils/moves.py": ["C08", "C20", "C07"],
    "registry.py": ["C08", "C07"],
    "constraints.py": ["C12"],
}

CMP = {ast.Lt: "<=", ast.LtE: "<", ast.Gt: ">=", ast.GtE: ">", ast.Eq: "!=", ast.NotEq: "==", ast.Is: "is not", ast.IsNot: "is"}
CMP_TXT = {ast.Lt: "<", ast.LtE: "<=", ast.Gt: ">", ast.GtE: ">=", ast.Eq: "==", ast.NotEq: "!=", ast.Is: "is", ast.IsNot: "is not"}
BIN = {ast.Add: ("+", "-"), ast.Sub: ("-", "+"), ast.Mult: ("*", "/"), ast.Div: ("/", "*")}


def offsets(src):
    lines = src.splitlines(keepends=True)
    starts = [0]
    for ln in lines:
        starts.append(starts[-1] + len(ln))
    return lambda line, col: starts[line - 1] + len(lines[line - 1].encode()[:col].decode())


def in_docstring_or_annotation(node, parents):
    for p in parents:
        if isinstance(p, (ast.AnnAssign,)) and node is p.annotation:
            return True
    return False


def candidates(path):
    src = open(path).read()
    tree = ast.parse(src)
    off = offsets(src)
    out = []
    skip_funcs = {"__repr__", "__str__"}

    def visit(node, func=None):
        if isinstance(node, (ast.FunctionDef, ast.AsyncFunctionDef)):
            func = node.name
        if func in skip_funcs:
            return
        if isinstance(node, ast.Compare) and len(node.ops) == 1 and type(node.ops[0]) in CMP:
            a, b = off(node.left.end_lineno, node.left.end_col_offset), off(node.comparators[0].lineno, node.comparators[0].col_offset)
            seg = src[a:b]
            old = CMP_TXT[type(node.ops[0])]
            if seg.count(old) == 1 or seg.strip() == old:
                i = a + seg.index(old)
                out.append((node.lineno, "cmp", i, i + len(old), CMP[type(node.ops[0])]))
        if isinstance(node, ast.BinOp) and type(node.op) in BIN:
            a, b = off(node.left.end_lineno, node.left.end_col_offset), off(node.right.lineno, node.right.col_offset)
            seg = src[a:b]
            old, new = BIN[type(node.op)]
            if seg.strip().strip("()") == old or (seg.count(old) == 1 and "**" not in seg):
                i = a + seg.index(old)
                out.append((node.lineno, "binop", i, i + len(old), new))
        if isinstance(node, ast.BoolOp):
            for x, y in zip(node.values[:-1], node.values[1:]):
                a, b = off(x.end_lineno, x.end_col_offset), off(y.lineno, y.col_offset)
                seg = src[a:b]
                old = "and" if isinstance(node.op, ast.And) else "or"
                if seg.split().count(old) == 1:
                    i = a + seg.index(old)
                    out.append((node.lineno, "boolop", i, i + len(old), "or" if old == "and" else "and"))
        if isinstance(node, ast.UnaryOp) and isinstance(node.op, ast.Not):
            a = off(node.lineno, node.col_offset)
            if src[a : a + 4] == "not ":
                out.append((node.lineno, "not", a, a + 4, ""))
        if isinstance(node, ast.Constant) and not isinstance(node.value, str) and node.value is not None and node.value is not Ellipsis:
            a, b = off(node.lineno, node.col_offset), off(node.end_lineno, node.end_col_offset)
            v = node.value
            if isinstance(v, bool):
                out.append((node.lineno, "const", a, b, "False" if v else "True"))
            elif isinstance(v, (int, float)) and not isinstance(v, complex):
                new = repr(v + 1) if isinstance(v, int) else repr(v * 2 if v else 1.0)
                out.append((node.lineno, "const", a, b, new))
        if isinstance(node, (ast.Expr, ast.Assign, ast.AugAssign)) and func is not None:
            if isinstance(node, ast.Expr) and isinstance(node.value, ast.Constant):
                pass  # docstring
            elif isinstance(node, ast.Expr) and isinstance(node.value, ast.Call) and getattr(node.value.func, "id", "") in ("warn",):
                pass
            else:
                a, b = off(node.lineno, node.col_offset), off(node.end_lineno, node.end_col_offset)
                out.append((node.lineno, "delete", a, b, "pass"))
        for field, value in ast.iter_fields(node):
            if field in ("annotation", "returns", "decorator_list"):
                continue
            if isinstance(node, ast.If) and field == "test" and isinstance(value, ast.Name) and value.id == "TYPE_CHECKING":
                return
            if isinstance(value, list):
                for v in value:
                    if isinstance(v, ast.AST):
                        visit(v, func)
            elif isinstance(value, ast.AST):
                visit(value, func)

    visit(tree)
    return src, out


def main():
    ap = argparse.ArgumentParser()
    ap.add_argument("--files", default="*")
    ap.add_argument("--max", type=int, default=100000)
    ap.add_argument("--seed", type=int, default=0)
    ap.add_argument("--out", default="/tmp/qvmut-results.jsonl")
    ap.add_argument("--resume", action="store_true")
    ap.add_argument("--kinds", default="cmp,binop,boolop,not,const,delete")
    ap.add_argument("--retry-survivors", default=None, help="results file of an earlier campaign: re-run only its survivors (after the checks were strengthened)")
    a = ap.parse_args()
    scratch = f"/tmp/qvmut.{os.getpid()}"
    shutil.rmtree(scratch, ignore_errors=True)
    os.makedirs(scratch + "/src")
    shutil.copytree(SRC, scratch + "/src/quansino", ignore=shutil.ignore_patterns("__pycache__"))
    todo = []
    for rel in RELEVANT:
        if not any(fnmatch.fnmatch(rel, g) for g in a.files.split(",")):
            continue
        src, cands = candidates(os.path.join(SRC, rel))
        for c in cands:
            if c[1] in a.kinds.split(","):
                todo.append((rel, c))
    random.Random(a.seed).shuffle(todo)
    todo = todo[: a.max]
    if a.retry_survivors:
        surv = set()
        for ln in open(a.retry_survivors):
            r = json.loads(ln)
            if not r["caught_by"]:
                surv.add((r["file"], r["line"], r["kind"], r["start"]))
        todo = [(rel, c) for rel, c in todo if (rel, c[0], c[1], c[2]) in surv]
    done = set()
    if a.resume and os.path.exists(a.out):
        for ln in open(a.out):
            r = json.loads(ln)
            done.add((r["file"], r["line"], r["kind"], r["start"]))
    print(f"{len(todo)} mutants planned", flush=True)
    env = dict(os.environ, QV_REPO=scratch)
    for k, (rel, (line, kind, s, e, new)) in enumerate(todo):
        if (rel, line, kind, s) in done:
            continue
        src = open(os.path.join(SRC, rel)).read()
        mutated = src[:s] + new + src[e:]
        try:
            compile(mutated, rel, "exec")
        except SyntaxError:
            continue
        target = os.path.join(scratch, "src/quansino", rel)
        open(target, "w").write(mutated)
        caught, results = [], {}
        t0 = time.time()
        for chk in RELEVANT[rel]:
            p = subprocess.run(["./check", chk, "--tier", "quick"], cwd=VERIF, env=env, capture_output=True, text=True)
            keys = [ln[6:] for ln in p.stdout.splitlines() if ln.startswith("  key=")]
            results[chk] = {"exit": p.returncode, "keys": keys[:3]}
            if p.returncode == 1:
                caught.append(chk)
                break
        open(target, "w").write(src)
        rec = {"file": rel, "line": line, "kind": kind, "start": s, "old": src[s:e][:60], "new": new, "context": src.splitlines()[line - 1].strip()[:120], "caught_by": caught, "results": results, "wall": round(time.time() - t0, 1)}
        with open(a.out, "a") as fh:
            fh.write(json.dumps(rec) + "\n")
        print(f"[{k + 1}/{len(todo)}] {rel}:{line} {kind} {src[s:e][:30]!r}->{new!r}: {'caught by ' + caught[0] if caught else 'SURVIVED ' + str({c: r['exit'] for c, r in results.items()})}", flush=True)
    shutil.rmtree(scratch, ignore_errors=True)


if __name__ == "__main__":
    main()
