"""C07 - restarting from any saved step continues the same trajectory.

Monitor: one uninterrupted reference run records, after every observer call (k = 0..n),
the bytes the real RestartObserver wrote to its file object and a digest of the state
(atoms with all per-atom arrays, reference energies, move history, labels, particle
count, step counter).  A fresh interpreter then loads each selected restart document
the documented way (read_json -> <Driver>.from_dict -> attach a calculator), runs the
remaining n-k steps and reports its digest stream, which must equal the reference's for
steps k+1..n (and the loaded state must equal the saved one).
Restart points: every k in 0..n on both tiers.  Workloads include tables whose names
are not in alphabetical order, a forced-only move of weight 0, cell moves that leave
the Cartesian positions alone, and a non-default accessible volume.
Every other reference run is re-tuned live through its documented attributes after a third of its steps (a resume
from an earlier file replays the re-tuning at the same point), the dictionary loaded from a file is used a second
time after the first rebuilt simulation has run, and a resumed run must perform exactly the requested steps.
One workload holds composites nested with the constructor (a displacement composite inside a plain one).
One grand-canonical workload leaves max_cycles at the driver's default while the atom count changes.
"""
from __future__ import annotations

import io
import json
import os
import subprocess
import sys
import tempfile

import numpy as np

from qv.lib import Rec, derive_seed

LEVEL = "exploration"
RULE = (
    "one evaluation = one resume from restart point k of one (driver, move table, seed) run, compared step by step with the uninterrupted run; restart points: "
    "every k in 0..n (quick n=12, thorough n=40); distinct by (workload, k); non-trivial when the remaining steps contain at least one accepted and one rejected trial "
    "(force bias: any step)"
)
ASSUMPTIONS = [
    "the documented restart procedure: ase.io.jsonio.read_json(file) -> <Driver>.from_dict(data) -> attach a calculator of the same kind -> run",
    "callables (geometric checks, momentum distributions) are not part of the serialized state; workloads use the defaults",
    "calculators are deterministic functions of the configuration",
]
REQUIRED = {"reference_runs_retuned_live": 5, "second_rebuilds_from_one_dictionary": 20, "resumes_compared": 60, "steps_compared": 300, "workloads_with_restart_file": 12, "resumes_from_step_zero": 10, "resumes_from_last_step": 10}
SHARD_TIMEOUT = {"quick": 900, "thorough": 3000}


def workloads(tier):
    D = lambda op="Ball", **k: {"t": "D", "op": {"t": op, "step": 0.4}, **k}  # noqa: E731
    gas = {"kind": "gas", "n": 4, "edge": 7.0, "extras": ["tags", "momenta", "i2"], "seed": 3}
    mols = {"kind": "molecules", "nmol": 3, "molsize": 2, "framework": 2, "edge": 9.0, "seed": 4, "extras": ["charges"]}
    mols3 = {"kind": "molecules", "nmol": 2, "molsize": 3, "framework": 1, "edge": 9.0, "seed": 5}
    mask = [[1, 0, 0], [0, 1, 0], [0, 0, 0]]
    w = {
        "canonical-ball": {"driver": "Canonical", "T": 400.0, "cycles": 3, "atoms": gas, "calc": {"kind": "soft"}, "table": [{"name": "d", "move": D(), "interval": 2}, {"name": "b", "move": D("Box"), "probability": 0.5, "min": 1}, {"name": "forced-only", "move": D("Sphere"), "probability": 0.0, "min": 1}]},
        "canonical-composites": {"driver": "Canonical", "T": 900.0, "cycles": 2, "atoms": mols, "calc": {"kind": "soft"}, "table": [{"name": "rot", "move": {"t": "D", "op": {"t": "Rotation"}}}, {"name": "dd", "move": {"t": "*", "part": D("Box", labelmod="gap"), "n": 2}, "probability": 2.0, "criteria": "canonical"}, {"name": "mix", "move": {"t": "+", "parts": [D("Sphere"), {"t": "D", "op": [{"t": "Ball", "step": 0.2}, {"t": "Rotation"}]}], "assoc": "right"}, "interval": 2, "criteria": "canonical"}, {"name": "tr", "move": {"t": "D", "op": {"t": "TranslationRotation"}, "default_label": 0}, "criteria": "runs"}]},
        "hamiltonian": {"driver": "HamiltonianCanonical", "T": 500.0, "cycles": 2, "atoms": {"kind": "gas", "n": 3, "edge": 6.0, "pbc": False, "seed": 5, "extras": ["masses", "momenta"]}, "calc": {"kind": "harmonic", "k": 1.5, "q": 0.5}, "table": [{"name": "h", "move": {"t": "H", "dt": 2.5, "steps": 6}}, {"name": "d", "move": D()}]},
        "isobaric": {"driver": "Isobaric", "ctor_defaults": True, "T": 800.0, "P": 0.01, "cycles": 3, "atoms": {**gas, "triclinic": True}, "calc": {"kind": "soft"}, "table": [{"name": "c", "move": {"t": "C", "op": {"t": "Aniso", "mv": 0.05, "mask": mask}, "scale": False}}, {"name": "i", "move": {"t": "C", "op": {"t": "Iso", "mv": 0.04}}}, {"name": "d", "move": D()}]},
        # steps whose only accepted trials are cell moves that leave the Cartesian positions alone (scale_atoms=False)
        "isobaric-cell-only-steps": {"driver": "Isobaric", "T": 2000.0, "P": 0.005, "cycles": 2, "atoms": {**gas, "triclinic": True}, "calc": {"kind": "soft"}, "table": [{"name": "c", "move": {"t": "C", "op": {"t": "Aniso", "mv": 0.03}, "scale": False}}, {"name": "s", "move": {"t": "C", "op": {"t": "Shape", "mv": 0.03}, "scale": False}, "probability": 0.5}, {"name": "d", "move": D(), "interval": 4}]},
        "isotension": {"driver": "Isotension", "T": 800.0, "P": 0.01, "S": [[0.01, 0.002, 0], [-0.001, 0.0, 0.003], [0, 0, -0.01]], "cycles": 3, "atoms": gas, "calc": {"kind": "soft"}, "table": [{"name": "c", "move": {"t": "C", "op": {"t": "Shape", "mv": 0.05}}}, {"name": "cd", "move": {"t": "+", "parts": [{"t": "C", "op": {"t": "Iso", "mv": 0.03}}, D("Box")]}, "criteria": "isotension"}, {"name": "d", "move": D("Box")}]},
        "grand-atomic": {"driver": "GrandCanonical", "T": 1500.0, "mu": -0.05, "cycles": 3, "species": 1, "accessible_volume_fraction": 0.3, "atoms": gas, "calc": {"kind": "soft"}, "table": [{"name": "x", "move": {"t": "E", "bias": 0.6}}, {"name": "d", "move": D(labelmod="gap", default_label=0)}, {"name": "b", "move": D("Box", default_label=-1)}]},
        # a dilute box that runs empty and fills again (every label deleted, then insertions): whatever a move remembers
        # beyond its label array must be in the file too
        "grand-box-runs-empty": {"driver": "GrandCanonical", "T": 3000.0, "mu": 0.0, "cycles": 4, "species": 1, "atoms": {"kind": "gas", "n": 1, "edge": 7.0, "seed": 8}, "calc": {"kind": "ideal"}, "table": [{"name": "x", "move": {"t": "E", "bias": 0.45}, "criteria": "accept"}, {"name": "d", "move": D()}]},
        "grand-molecular": {"driver": "GrandCanonical", "ctor_defaults": True, "T": 2500.0, "mu": -0.02, "cycles": 3, "species": 2, "accessible_volume_fraction": 1.7, "atoms": mols, "calc": {"kind": "soft"}, "table": [{"name": "x", "move": {"t": "E", "op": {"t": "TranslationRotation"}, "labelmod": "rev"}}, {"name": "d", "move": {"t": "D", "op": {"t": "TranslationRotation"}}}, {"name": "r", "move": {"t": "D", "op": {"t": "Rotation"}, "labelmod": "someneg"}}]},
        "grand-composite": {"driver": "GrandCanonical", "T": 2500.0, "mu": 0.05, "cycles": 2, "species": 3, "atoms": mols3, "calc": {"kind": "soft"}, "table": [{"name": "x", "move": {"t": "E", "op": {"t": "TranslationRotation"}, "id": "e0"}}, {"name": "xx", "move": {"t": "*", "part": {"t": "E", "op": {"t": "TranslationRotation"}, "bias": 0.7}, "n": 2, "attrs": {"bias_towards_insert": 0.8}}, "criteria": "random:0.5"}, {"name": "dx", "move": {"t": "+", "parts": [D(), {"t": "E", "op": {"t": "TranslationRotation"}}]}, "criteria": "alternate"}, {"name": "same", "move": {"t": "ref", "id": "e0"}}]},
        # composites nested on purpose with the constructor: the inner displacement composite keeps its own logic (no
        # particle twice) inside the plain one, and so it must after a restart
        "canonical-nested-composites": {"driver": "Canonical", "T": 900.0, "cycles": 2, "atoms": gas, "calc": {"kind": "soft"}, "table": [{"name": "nest", "move": {"t": "nest", "parts": [{"t": "*", "part": D("Box"), "n": 2}, D("Sphere")]}, "criteria": "canonical"}, {"name": "nn", "move": {"t": "nest", "parts": [{"t": "nest", "parts": [{"t": "+", "parts": [D(), D("Box")]}, D()]}, D("Sphere")]}, "criteria": "random:0.5"}, {"name": "d", "move": D()}]},
        # max_cycles left at the driver's default (one cycle per atom present at construction) while the atom count changes
        "grand-default-cycles": {"driver": "GrandCanonical", "T": 2000.0, "mu": 0.0, "cycles": "default", "species": 1, "atoms": {"kind": "gas", "n": 3, "edge": 7.0, "seed": 11}, "calc": {"kind": "soft"}, "table": [{"name": "x", "move": {"t": "E", "bias": 0.6}, "criteria": "random:0.8"}, {"name": "d", "move": D()}]},
        "montecarlo-bare": {"driver": "MonteCarlo", "cycles": 2, "atoms": gas, "calc": {"kind": "soft"}, "table": [{"name": "p", "move": {"t": "P"}, "criteria": "random:0.5"}]},
        "forcebias": {"driver": "ForceBias", "T": 300.0, "delta": 0.15, "atoms": {"kind": "mixed", "n": 5, "edge": 8.0, "pbc": False, "seed": 6}, "calc": {"kind": "harmonic", "k": 1.0}},
        "adaptive-forcebias": {"driver": "AdaptiveForceBias", "T": 300.0, "delta": 0.2, "atoms": {"kind": "mixed", "n": 5, "edge": 8.0, "pbc": False, "seed": 7}, "calc": {"kind": "committee"}},
    }
    return w


def plan(tier, seed):
    n = 12 if tier == "quick" else 40
    specs = []
    for name, w in workloads(tier).items():
        for s in range(2 if tier == "quick" else 10):
            specs.append({"name": f"{name}-s{s}", "wname": name, "w": w, "n": n, "seed": seed, "s": s, "all_k": True})
    return specs


def reduced_digest(mc):
    """State digest without the per-step move history (which a restart file does not carry)."""
    from qv import sims

    hist = getattr(mc, "move_history", None)
    if hist is not None:
        saved = list(hist)
        mc.move_history = []
        d = sims.state_digest(mc)
        mc.move_history = saved
        return d
    return sims.state_digest(mc)


def reference(w, seed, n, retune_at=None):
    from qv import sims

    rst = io.StringIO()
    mc, _ = sims.build({**w, "seed": seed}, restart_file=rst, logging_interval=1)
    docs, dig, red, verdicts = [], [], [], []
    away = None
    if retune_at is not None:
        # the live simulation is re-tuned in mid-run through its documented attributes (temperature, pressure, stress,
        # chemical potential, weights, step lengths, biases, time step): restart files written from then on describe the
        # new configuration, and a simulation rebuilt from them must continue exactly like the re-tuned one
        from qv.props import c06 as _c06

        w_off, todo_back = _c06.detuned(w)
        mc_off, _ = sims.build({**w_off, "seed": seed})
        away = _c06.detune_values(mc_off, todo_back)
    for step in mc.irun(n):
        docs.append(rst.getvalue())
        dig.append(sims.state_digest(mc))
        red.append(reduced_digest(mc))
        if away is not None and len(docs) - 1 == retune_at:
            _c06.retune(mc, away)  # after the observers of step retune_at, before the trials of the next step
        if hasattr(step, "__next__"):
            for _ in step:
                pass
            verdicts.append([None if v is None else bool(v) for _, v in mc.move_history])
        else:
            verdicts.append([True])
    docs.append(rst.getvalue())
    dig.append(sims.state_digest(mc))
    red.append(reduced_digest(mc))
    return docs, dig, red, verdicts


def resume_streams(w, docs, ks, n, retune_at=None):
    """Child side: for each k load docs[k] the documented way and run n-k steps."""
    from ase.io.jsonio import read_json

    from qv import sims

    sims.register_scripted()
    out = {}
    for k in ks:
        try:
            with tempfile.NamedTemporaryFile("w+", suffix=".json", dir=os.environ.get("QV_WORK", None)) as fh:
                fh.write(docs[k])
                fh.flush()
                fh.seek(0)
                data = read_json(fh)
            name = data.get("name") if isinstance(data, dict) else None
            # documented way: `from quansino.mc.<module> import <Driver>`; nothing else is imported beforehand
            modname = {"MonteCarlo": "core", "Canonical": "canonical", "HamiltonianCanonical": "canonical", "Isobaric": "isobaric", "Isotension": "isotension", "GrandCanonical": "gcmc", "ForceBias": "fbmc", "AdaptiveForceBias": "fbmc"}[w["driver"]]
            import importlib

            cls = getattr(importlib.import_module(f"quansino.mc.{modname}"), w["driver"])
            mc = cls.from_dict(data)
            # "a calculator of the same kind": built from the workload spec exactly as for the reference run
            # (the harmonic wells are centred on the spec's initial positions, not on the restart configuration)
            mc.atoms.calc = sims.build_calc(w.get("calc", {}), sims.build_atoms(w.get("atoms", {}))[0])
            first = reduced_digest(mc)
            stream = []
            away = None
            if retune_at is not None and k <= retune_at:
                # a resume from before the re-tuning replays it at the same point of the history
                from qv.props import c06 as _c06

                w_off, todo_back = _c06.detuned(w)
                mc_off, _ = sims.build({**w_off, "seed": 1})
                away = _c06.detune_values(mc_off, todo_back)
            for step in mc.irun(n - k):
                stream.append(sims.state_digest(mc))  # state at step_count = k + len(stream) - 1, as in the reference
                if away is not None and k + len(stream) - 1 == retune_at:
                    _c06.retune(mc, away)
                if hasattr(step, "__next__"):
                    for _ in step:
                        pass
            stream.append(sims.state_digest(mc))
            stream[0] = first
            out[str(k)] = {"ok": True, "stream": stream, "name": name}
            if k % 4 == 1 and k < n and (retune_at is None or k > retune_at):
                # the same loaded dictionary used a second time (a retry, or a second continuation through another entry
                # point) after the first rebuilt simulation has run: it must give the same continuation again
                mc2 = cls.from_dict(data)
                mc2.atoms.calc = sims.build_calc(w.get("calc", {}), sims.build_atoms(w.get("atoms", {}))[0])
                second = [reduced_digest(mc2)]
                mc2.run(n - k)
                second.append(sims.state_digest(mc2))
                out[str(k)]["second_rebuild"] = {"first": second[0], "last": second[1]}
        except Exception as ex:  # noqa: BLE001
            import traceback

            tb = traceback.extract_tb(ex.__traceback__)
            fr = [f for f in tb if "/quansino/" in f.filename and "/qv/" not in f.filename]
            where = f"{fr[-1].filename.split('/quansino/')[-1]}:{fr[-1].name}" if fr else "?"
            out[str(k)] = {"ok": False, "error": f"{type(ex).__name__}: {ex}"[:300], "where": f"{type(ex).__name__}@{where}"}
    return out


def run(spec):
    from qv import env

    env.import_quansino()
    rec = Rec(spec["name"])
    w, n = spec["w"], spec["n"]
    seed = derive_seed("c07", spec["seed"], spec["wname"], spec["s"])
    wit0 = {"workload": spec["wname"], "driver": w["driver"], "seed": seed, "steps": n}
    try:
        retune_at = (n // 3) if spec["s"] % 2 == 1 and w["driver"] not in ("MonteCarlo",) else None
        docs, dig, red, verdicts = reference(w, seed, n, retune_at)
        if retune_at is not None:
            rec.count("reference_runs_retuned_live")
            wit0["retuned_live_at_step"] = retune_at
    except Exception as ex:  # noqa: BLE001
        import traceback

        tb = traceback.extract_tb(ex.__traceback__)
        fr = [f for f in tb if ("/quansino/" in f.filename or "/ase/" in f.filename) and "/qv/" not in f.filename]
        rec.viol(f"C07/{w['driver']}/restart-file-cannot-be-written/{type(ex).__name__}", f"running {w['driver']} with a restart file raised {type(ex).__name__}: {ex}"[:300], {**wit0, "where": f"{fr[-1].filename.split('/')[-1]}:{fr[-1].name}" if fr else "?"})
        rec.evaluations += 1
        rec.case(spec["wname"], "write")
        return rec.out()
    rec.count("workloads_with_restart_file")
    ks = list(range(n + 1)) if spec["all_k"] else sorted({0, 1, 5, n - 1, n})
    e = dict(os.environ)
    e["PYTHONHASHSEED"] = str(7 + spec["s"])
    e["PYTHONPATH"] = env.VERIF + os.pathsep + env.SRC
    payload = json.dumps({"w": w, "docs": docs, "ks": ks, "n": n, "retune_at": retune_at})
    try:
        p = subprocess.run([env.PY, "-m", "qv.props.c07", "--child"], input=payload, capture_output=True, text=True, timeout=900, env=e)
        res = json.loads(p.stdout.strip().splitlines()[-1]) if p.returncode == 0 else None
    except Exception as ex:  # noqa: BLE001
        res = None
        p = None
    if res is None:
        rec.inconclusive.append(f"resume child failed: {(p.stderr[-300:] if p else 'timeout')}")
        return rec.out()
    for k in ks:
        r = res[str(k)]
        rec.evaluations += 1
        wit = {**wit0, "restart_point": k}
        remaining = [v for vs in verdicts[k:] for v in vs]
        if (True in remaining and False in remaining) or w["driver"].endswith("ForceBias"):
            rec.case(spec["wname"], k)
        if not r["ok"]:
            rec.viol(f"C07/{w['driver']}/cannot-resume/{r['where']}", f"the restart file written at step {k} cannot be loaded and continued the documented way: {r['error']}", wit)
            continue
        rec.count("resumes_compared")
        if k == 0:
            rec.count("resumes_from_step_zero")
        if k == n:
            rec.count("resumes_from_last_step")
        stream = r["stream"]
        if stream[0] != red[k]:
            rec.viol(f"C07/{w['driver']}/loaded-state-differs", f"the state rebuilt from the restart file of step {k} differs from the state that was saved", wit)
            continue
        if len(stream) != n - k + 1:
            rec.viol(f"C07/{w['driver']}/resumed-run-performs-wrong-number-of-steps", f"resumed from step {k} and asked for {n - k} steps, the rebuilt simulation performed {len(stream) - 1}", wit)
            continue
        sr = r.get("second_rebuild")
        if sr is not None:
            rec.count("second_rebuilds_from_one_dictionary")
            if sr["first"] != red[k] or sr["last"] != dig[n]:
                rec.viol(f"C07/{w['driver']}/second-rebuild-from-same-dictionary-differs", f"the dictionary loaded from the restart file of step {k} was used a second time after the first rebuilt simulation had run: the second one {'starts from another state' if sr['first'] != red[k] else 'ends in another state'}", wit)
        rec.count("steps_compared", n - k)
        for j, d in enumerate(stream[1:], start=k + 1):
            # reference digest after step j's body = dig[j] taken at the start of iteration j (before step j+1) -> index j
            if d != dig[j]:
                rec.viol(f"C07/{w['driver']}/trajectory-diverges-after-restart", f"resumed from step {k}: the state after step {j} differs from the uninterrupted run", {**wit, "first_divergent_step": j})
                break
        rec.sample({**wit, "document_bytes": len(docs[k]), "remaining_verdicts": remaining[:8]}, cap=3)
    return rec.out()


if __name__ == "__main__" and "--child" in sys.argv:
    import warnings

    warnings.simplefilter("ignore")
    from qv import env as _env

    _env.setup_path()
    job = json.loads(sys.stdin.read())
    print(json.dumps(resume_streams(job["w"], job["docs"], job["ks"], job["n"], job.get("retune_at"))))
