"""Run one shard in a fresh interpreter: python -m qv.shard <PROP> <spec.json> <out.json>."""
from __future__ import annotations

import faulthandler
import importlib
import json
import sys
import traceback
import warnings


def main() -> int:
    prop, spec_file, out_file = sys.argv[1:4]
    faulthandler.enable()
    from qv import env

    env.setup_path()
    warnings.simplefilter("ignore")
    with open(spec_file) as fh:
        spec = json.load(fh)
    mod = importlib.import_module(f"qv.props.{prop.lower()}")
    try:
        res = mod.run(spec)
    except Exception:  # harness failure -> shard dies -> inconclusive
        traceback.print_exc()
        return 3
    res.setdefault("name", spec.get("name"))
    with open(out_file, "w") as fh:
        json.dump(res, fh, default=str)
    return 0


if __name__ == "__main__":
    sys.exit(main())
