"""Runtime-monitoring harness for quansino (properties C01-C20)."""
