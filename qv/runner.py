"""Check runner: expands a property check into shards, runs them as subprocesses,
merges what the monitors observed, classifies violations against the known-findings
file and writes the evidence file.

Exit status: 0 = held on everything observed (known findings are printed, not alarmed),
1 = at least one violation not listed as a known finding, 2 = inconclusive (a deciding
monitor observed nothing, a shard died or timed out).
"""
from __future__ import annotations

import argparse
import importlib
import json
import os
import re
import shutil
import subprocess
import sys
import time
from concurrent.futures import ThreadPoolExecutor

from qv import env

WORK = os.path.join(env.VERIF, ".work")
EVID = os.path.join(env.VERIF, "evidence")
REPLAYS = os.path.join(env.VERIF, "replays")
KNOWN = os.path.join(env.VERIF, "known_findings.txt")

_LINE = re.compile(r"^(finding|fixed):\s+property=(C\d+)\s+(\S+)\s*(.*)$")


def load_known() -> dict[str, dict]:
    """Parse known_findings.txt.  Only ``finding:`` lines suppress anything."""
    out: dict[str, dict] = {}
    if not os.path.exists(KNOWN):
        return out
    with open(KNOWN) as fh:
        for raw in fh:
            line = raw.strip()
            if not line or line.startswith("#"):
                continue
            m = _LINE.match(line)
            if not m:
                continue
            kind, prop, token, rest = m.groups()
            if kind == "finding":
                key = token[4:] if token.startswith("key=") else token
                out[key] = {"property": prop, "what": rest}
    return out


def shard_env() -> dict[str, str]:
    e = dict(os.environ)
    e[env.GUARD] = "1"
    e["QV_REPO"] = env.REPO
    for v in ("OMP_NUM_THREADS", "OPENBLAS_NUM_THREADS", "MKL_NUM_THREADS"):
        e[v] = "1"
    e["PYTHONPATH"] = env.VERIF + os.pathsep + env.SRC
    e["PYTHONDONTWRITEBYTECODE"] = "1"
    e.setdefault("PYTHONHASHSEED", "0")
    return e


def run_one(prop: str, spec: dict, workdir: str, timeout: float) -> dict:
    name = spec["name"]
    safe = re.sub(r"[^A-Za-z0-9_.-]", "_", name)
    spec_file = os.path.join(workdir, safe + ".spec.json")
    out_file = os.path.join(workdir, safe + ".out.json")
    with open(spec_file, "w") as fh:
        json.dump(spec, fh)
    cmd = [env.PY, "-X", "faulthandler", "-m", "qv.shard", prop, spec_file, out_file]
    if os.environ.get("QV_COVERAGE"):  # developer aid: which package lines / branches do the workloads reach?
        cmd = [env.PY, "-m", "coverage", "run", "-p", "--branch", f"--source={env.SRC}/quansino", f"--data-file={os.environ['QV_COVERAGE']}/.coverage", "-m", "qv.shard", prop, spec_file, out_file]
    t0 = time.time()
    try:
        p = subprocess.run(
            cmd,
            cwd=workdir,
            env=shard_env(),
            capture_output=True,
            text=True,
            timeout=timeout,
        )
    except subprocess.TimeoutExpired:
        return {"name": name, "dead": f"watchdog {timeout:.0f}s", "spec": spec}
    if p.returncode != 0 or not os.path.exists(out_file):
        tail = " | ".join((p.stderr or p.stdout or "").strip().splitlines()[-3:])[-500:]
        return {"name": name, "dead": f"exit {p.returncode}: {tail}", "spec": spec}
    with open(out_file) as fh:
        res = json.load(fh)
    res["spec"] = spec
    res["wall"] = time.time() - t0
    return res


def merge_counters(dst: dict, src: dict) -> None:
    for k, v in src.items():
        if isinstance(v, (int, float)):
            dst[k] = dst.get(k, 0) + v


def main(argv=None) -> int:
    ap = argparse.ArgumentParser(prog="check")
    ap.add_argument("prop")
    ap.add_argument("--tier", default=os.environ.get("VERIF_TIER", "quick"))
    ap.add_argument("--seed", type=int, default=None)
    ap.add_argument("--replay", default=None)
    ap.add_argument("--jobs", type=int, default=int(os.environ.get("QV_JOBS", "16")))
    ap.add_argument("--only", default=None, help="run only shards whose name contains this")
    a = ap.parse_args(argv)
    prop = a.prop.upper()
    tier = a.tier if a.tier in ("quick", "thorough") else "quick"
    seed = a.seed if a.seed is not None else int(os.environ.get("VERIF_SEED", "0") or 0)

    env.setup_path()
    mod = importlib.import_module(f"qv.props.{prop.lower()}")
    t0 = time.time()
    workdir = os.path.join(WORK, f"{prop}-{os.getpid()}")  # unique per invocation: concurrent checks must not collide
    shutil.rmtree(workdir, ignore_errors=True)
    os.makedirs(workdir, exist_ok=True)
    os.makedirs(EVID, exist_ok=True)

    if a.replay:
        with open(a.replay) as fh:
            rep = json.load(fh)
        specs = [rep["spec"]]
        tier = rep.get("tier", tier)
        seed = rep.get("seed", seed)
    else:
        specs = mod.plan(tier, seed)
        if a.only:
            specs = [s for s in specs if a.only in s["name"]]
    timeout = float(getattr(mod, "SHARD_TIMEOUT", {}).get(tier, 900))

    with ThreadPoolExecutor(max_workers=max(1, a.jobs)) as ex:
        results = list(ex.map(lambda s: run_one(prop, s, workdir, timeout), specs))

    inconclusive: list[str] = []
    violations: list[dict] = []
    counters: dict = {}
    cases: set[str] = set()
    samples: list = []
    evaluations = 0
    extra: dict = {}
    for r in results:
        if "dead" in r:
            inconclusive.append(f"shard {r['name']} died: {r['dead']}")
            continue
        evaluations += int(r.get("evaluations", 0))
        cases.update(r.get("cases", []))
        for s in r.get("samples", [])[:2]:
            if len(samples) < 12:
                samples.append(s)
        merge_counters(counters, r.get("counters", {}))
        for v in r.get("violations", []):
            v.setdefault("shard", r["name"])
            v["spec"] = r["spec"]
            violations.append(v)
        inconclusive.extend(f"{r['name']}: {x}" for x in r.get("inconclusive", []))

    if hasattr(mod, "finalize") and not a.replay:
        fin = mod.finalize([r for r in results if "dead" not in r], tier, seed) or {}
        for v in fin.get("violations", []):
            v.setdefault("spec", {"name": "finalize"})
            violations.append(v)
        inconclusive.extend(fin.get("inconclusive", []))
        merge_counters(counters, fin.get("counters", {}))
        cases.update(fin.get("cases", []))
        evaluations += int(fin.get("evaluations", 0))
        extra.update(fin.get("extra", {}))
        samples.extend(fin.get("samples", [])[:4])

    if not a.replay and not a.only:
        for cname, minimum in getattr(mod, "REQUIRED", {}).items():
            if counters.get(cname, 0) < minimum:
                inconclusive.append(
                    f"monitor counter {cname}={counters.get(cname, 0)} < required {minimum}"
                )

    known = load_known()
    seen_known: dict[str, dict] = {}
    fresh: dict[str, dict] = {}
    for v in violations:
        key = v["key"]
        if key in known and known[key]["property"] == prop:
            seen_known.setdefault(key, v)
        else:
            fresh.setdefault(key, v)

    for key in sorted(seen_known):
        print(f"KNOWN-FINDING: property={prop} {key} :: {known[key]['what']}")
    if not a.replay and not a.only:
        for key in sorted(k for k, v in known.items() if v["property"] == prop and k not in seen_known):
            print(f"NOTE: listed finding not observed in this run (fixed, or not reached): property={prop} {key}")
    os.makedirs(REPLAYS, exist_ok=True)
    for key in sorted(fresh):
        v = fresh[key]
        path = os.path.join(REPLAYS, prop + "-" + re.sub(r"[^A-Za-z0-9_.-]", "_", key)[:120] + ".json")
        with open(path, "w") as fh:
            json.dump({"property": prop, "tier": tier, "seed": seed, "spec": v["spec"], "violation": {k: v[k] for k in v if k != "spec"}}, fh, indent=1, default=str)
        print(f"VIOLATION property={prop} replay={path}")
        print(f"  key={key}\n  what={v.get('what')}\n  witness={json.dumps(v.get('witness'), default=str)[:1200]}")
    for msg in inconclusive[:20]:
        print(f"INCONCLUSIVE property={prop} reason={msg}")

    wall = time.time() - t0
    if not samples:
        samples = [{"note": "no sample recorded"}]
    evidence = {
        "property_id": prop,
        "tier": tier,
        "seed": seed,
        "level": getattr(mod, "LEVEL", "exploration"),
        "coverage": {
            "evaluations": int(evaluations),
            "distinct_nontrivial": len(cases),
            "rule": getattr(mod, "RULE", ""),
            "samples": samples,
            "exhaustive": bool(getattr(mod, "EXHAUSTIVE", False)),
            "monitor_counters": counters,
            "distinct_cases_sample": sorted(cases)[:40],
            "shards": len(specs),
            "known_findings_observed": sorted(seen_known),
            "known_findings_listed_not_observed": sorted(k for k, v in known.items() if v["property"] == prop and k not in seen_known),
            "unlisted_violations": sorted(fresh),
            "inconclusive": inconclusive[:20],
            "verdict": "violated" if fresh else ("inconclusive" if inconclusive else "held on what was observed"),
            **extra,
        },
        "assumptions": list(getattr(mod, "ASSUMPTIONS", [])),
        "wall_s": round(wall, 2),
        "violations": len(fresh),
    }
    drill = os.path.abspath(env.REPO) != "/repo"  # mutation drill against a scratch tree: never touch the evidence
    if not a.replay and not a.only and not drill:
        with open(os.path.join(EVID, prop + ".json"), "w") as fh:
            json.dump(evidence, fh, indent=1, default=str)
    shutil.rmtree(workdir, ignore_errors=True)
    summary = {k: counters[k] for k in list(counters)[:14]}
    print(f"{prop} tier={tier} seed={seed} evaluations={evaluations} distinct={len(cases)} wall={wall:.1f}s counters={summary}")
    if fresh:
        return 1
    if inconclusive:
        return 2
    print(f"HELD property={prop} (on what was observed)")
    return 0


if __name__ == "__main__":
    sys.exit(main())
