"""C02 - acceptance decisions equal the textbook Metropolis rule.

Monitor: the contract of qv/metropolis.py around the real `evaluate` of all five shipped
criteria classes.  Workloads are live simulations of every ensemble whose energies come
from a hostile scripted calculator (pseudo-random energy per configuration, amplitude
1e-12..1e6 eV) while temperature (1e-2..1e5 K), pressure, external stress, chemical
potential, particle count, accessible volume and exchange species are re-assigned through
the simulation object's public properties between steps, so |dE|/kT ranges far beyond
709 in both directions, volumes from 1e-3 to 1e9 A^3, sheared cells, N in {0,1,2,10,1e4}.
Oracle: returned decision == (u < min(1, A)) with u predicted by a shadow of the
simulation's generator and log A from the statement's formulas; no exception; exactly one
uniform draw consumed (or none when A >= 1); pooled acceptance frequency per A-bin.
Cells are also left-handed; isobaric / isotension simulations also get their moves through the drivers' constructors
with molecular and frozen labels; settings are also assigned as numpy scalars and 0-d arrays; the Hamiltonian oracle
takes its reference kinetic energy from a recorder on entry to the integrator (every trajectory, so also the one tried
again after a vetoed one), never from the context.
In the hand-driven simulations the reference cell and energy are recorded by the workload when each trial starts (an
independent evaluation of the configuration the trial starts from); a quarter of the isobaric / isotension ones have
their box rescaled by the user between run calls.
"""
from __future__ import annotations

import hashlib
import math

import numpy as np

from qv import metropolis
from qv.lib import Harmonic, Prescribed, Rec, derive_seed, rng_for

LEVEL = "exploration"
RULE = (
    "one evaluation = one criteria.evaluate call reached by a real trial; distinct by (ensemble, insertion/deletion, sign of log A, decade of |log A|, hydrostatic or not); "
    "non-trivial = every judged call (the decision depends on a fresh uniform draw and a non-zero energy / volume / particle change)"
)
ASSUMPTIONS = [
    "the statement does not define the finite-strain measure of the isotension work term; the oracle uses the one the package implements at the pinned commit, recomputed independently from the two cells: eps = ((h h0^-1)^T - 1)/2 (rows of h = cell vectors). Independently of that choice: hydrostatic stress must reproduce the isobaric decision for every cell, an unchanged cell has zero strain, a pure scaling has isotropic strain",
    "only single-particle exchanges (delta N = +-1) are judged",
    "calls with |log u - log A| < 1e-9 relative are counted as undecidable (probability ~1e-9 per call)",
    "thermal wavelength from ase.units CODATA constants: h / sqrt(2 pi m kT)",
]
REQUIRED = {"cells_rescaled_between_run_calls": 20, "references_recorded_at_trial_start": 2000, "simulations_with_constructor_default_moves": 20, "judged:canonical": 500, "judged:hamiltonian": 100, "judged:hamiltonian:after-a-vetoed-trajectory": 10, "hamiltonian_reference_from_trajectory_start": 100, "judged:isobaric": 300, "judged:isotension": 300, "judged:grand:insert": 150, "judged:grand:delete": 150, "judged:grand:delete-at-zero": 5, "judged_beyond_exp_range": 300, "u_identified": 1500, "parameter_changes": 500, "passive_simulations": 60}
SHARD_TIMEOUT = {"quick": 900, "thorough": 3000}


def plan(tier, seed):
    big = tier != "quick"
    specs = []
    steps = 150 if not big else 2500
    for ens in ("canonical", "hamiltonian", "isobaric", "isotension", "isotension-hydro", "grand", "grand-mol"):
        for j in range(2 if ens != "hamiltonian" else 1):
            specs.append({"name": f"{ens}{j}", "ens": ens, "j": j, "seed": seed, "sims": 12 if not big else 14, "steps": steps if ens != "hamiltonian" else steps // 3})
    specs.append({"name": "strain", "ens": "strain", "j": 0, "seed": seed, "sims": 200 if not big else 3000, "steps": 0})
    # passive: the contract rides along in ordinary simulations of every ensemble built by the shared workload generator
    # (composite moves, molecules, constraints, vetoes, moderate temperatures: real equilibrium-like histories)
    for j, fam in enumerate(["canonical", "hamiltonian", "isobaric", "isotension", "grand", "grand", "isobaric", "canonical"]):
        specs.append({"name": f"passive-{fam}{j}", "ens": "passive", "family": fam, "j": j, "seed": seed, "sims": 10 if not big else 60, "steps": 40 if not big else 120})
    return specs


def hash_energy(amp):
    def energy(atoms):
        h = hashlib.sha256()
        h.update(np.ascontiguousarray(atoms.positions).tobytes())
        h.update(np.ascontiguousarray(atoms.numbers).tobytes())
        h.update(np.ascontiguousarray(atoms.cell.array).tobytes())
        x = int.from_bytes(h.digest()[:8], "little") / 2**64
        return amp * (2 * x - 1)

    return energy


def rand_T(rng):
    return float(10 ** rng.uniform(-2, 5))


def make_atoms(rng, n, edge, sheared=False):
    from ase import Atoms

    cell = np.eye(3) * edge
    if sheared:
        cell = cell + np.tril(rng.uniform(-0.4, 0.4, (3, 3)), -1) * edge
        if rng.random() < 0.35:
            cell = cell[[1, 0, 2]]  # lattice vectors listed as a left-handed set (negative determinant, same volume)
    return Atoms("Cu" * n, positions=rng.uniform(0, 1, (n, 3)) @ cell, cell=cell, pbc=True)


def run_sim(rec, spec, rng, i):
    from ase import Atoms

    import quansino.operations.cell as oc
    import quansino.operations.displacement as od
    from quansino.integrators.displacement import Verlet
    from quansino.mc.canonical import Canonical, HamiltonianCanonical
    from quansino.mc.gcmc import GrandCanonical
    from quansino.mc.isobaric import Isobaric
    from quansino.mc.isotension import Isotension
    from quansino.moves.cell import CellMove
    from quansino.moves.displacement import DisplacementMove, HamiltonianDisplacementMove
    from quansino.moves.exchange import ExchangeMove

    ens = spec["ens"]
    outside_edits = False
    seed = derive_seed("c02", spec["seed"], spec["name"], i)
    amp = float(10 ** rng.uniform(-12, 6))
    n = int(rng.integers(1, 6))
    T = rand_T(rng)
    if ens == "canonical":
        atoms = make_atoms(rng, n, 8.0)
        atoms.calc = Prescribed(energy=hash_energy(amp))
        mc = Canonical(atoms, temperature=T, max_cycles=3, seed=seed)
        mc.add_move(DisplacementMove(np.arange(n), od.Ball(0.3)), name="d")
        metropolis.intend(mc.context, T=T)
    elif ens == "hamiltonian":
        sites = rng.uniform(2, 6, (n, 3))
        atoms = Atoms("H" * n, positions=sites + rng.normal(scale=0.2, size=(n, 3)))
        atoms.set_masses(rng.uniform(1, 30, n))
        k = float(10 ** rng.uniform(-2, 3))
        atoms.calc = Harmonic(sites, k, quartic=0.05 * k)
        mc = HamiltonianCanonical(atoms, temperature=T, max_cycles=2, seed=seed)
        omega = math.sqrt(2 * k / atoms.get_masses().min())
        from quansino.utils.dynamics import maxwell_boltzmann_distribution

        def recording_refresh(context):
            # the shipped refresh; the oracle's reference kinetic energy is that of the momenta it has just drawn
            maxwell_boltzmann_distribution(context)
            it_ = metropolis.INTENT.get(id(context))
            if it_ is not None:
                it_["ke_ref"] = float(context.atoms.get_kinetic_energy())

        mc.add_move(HamiltonianDisplacementMove(distribution=recording_refresh, operation=Verlet(dt=float(rng.uniform(0.2, 1.2)) / omega / 0.0982269, max_steps=int(rng.integers(1, 12)))), name="h")
        metropolis.intend(mc.context, T=T)
    elif ens in ("isobaric", "isotension", "isotension-hydro"):
        edge = float(10 ** rng.uniform(-1, 3))
        atoms = make_atoms(rng, n, edge, sheared=bool(rng.random() < 0.6))
        atoms.calc = Prescribed(energy=hash_energy(amp))
        outside_edits = i % 4 == 3
        if outside_edits:
            atoms.calc = Prescribed(energy=float(rng.normal()))  # a constant: see the rescaling between run calls below
        P = float(rng.choice([-1, 1]) * 10 ** rng.uniform(-6, 1)) if rng.random() < 0.9 else 0.0
        opk = int(rng.integers(0, 3))
        op = [oc.IsotropicDeformation, oc.AnisotropicDeformation, oc.ShapeDeformation][opk](float(10 ** rng.uniform(-3, -0.5)))
        # every other simulation hands its moves to the driver's constructor (the documented default_displacement_move /
        # default_cell_move parameters) with a labelling that groups atoms into molecules and freezes some (negative
        # labels); the N of the statement stays the number of atoms, all of which a cell move rescales
        via_ctor = bool(i % 2)
        dkw = {}
        if via_ctor:
            lab = np.arange(n) // 2
            if n >= 3:
                lab[-1] = -1
            dkw = {"default_displacement_move": DisplacementMove(lab, od.Box(0.1 * edge)), "default_cell_move": CellMove(op, scale_atoms=bool(rng.random() < 0.7))}
            rec.count("simulations_with_constructor_default_moves")
        if ens == "isobaric":
            mc = Isobaric(atoms, temperature=T, pressure=P, max_cycles=3, seed=seed, **dkw)
            metropolis.intend(mc.context, T=T, P=P)
        else:
            S = P * np.eye(3) if ens == "isotension-hydro" else rand_stress(rng)
            mc = Isotension(atoms, temperature=T, pressure=P, external_stress=S, max_cycles=3, seed=seed, **dkw)
            metropolis.intend(mc.context, T=T, P=P, S=np.array(S, copy=True))
        if not via_ctor:
            mc.add_move(CellMove(op, scale_atoms=bool(rng.random() < 0.7)), name="c", probability=0.7)
            mc.add_move(DisplacementMove(np.arange(n), od.Box(0.1 * edge)), name="d", probability=0.3)
    else:
        mol = ens == "grand-mol"
        edge = float(10 ** rng.uniform(0.3, 2))
        atoms = make_atoms(rng, n, edge, sheared=bool(rng.random() < 0.5))
        atoms.calc = Prescribed(energy=hash_energy(amp))
        species = Atoms("N2", positions=[[0, 0, 0], [0, 0, 1.1]]) if mol else Atoms(str(rng.choice(["Ar", "H", "Au"])))
        mu = float(rng.uniform(-50, 50)) if rng.random() < 0.5 else float(rng.uniform(-1, 1))
        N0 = int(rng.choice([0, 1, 2, 10, 10000]))
        mc = GrandCanonical(atoms, exchange_atoms=species, temperature=T, chemical_potential=mu, number_of_exchange_particles=N0, max_cycles=3, seed=seed)
        labels = np.arange(n)
        mc.add_move(ExchangeMove(labels, od.TranslationRotation() if mol else None), name="x", probability=0.8)
        mc.add_move(DisplacementMove(labels.copy(), od.Ball(0.3)), name="d", probability=0.2)
        metropolis.intend(mc.context, T=T, mu=mu, N=N0, V=float(atoms.cell.volume), species_mass=float(species.get_masses().sum()), species_symbols=list(species.symbols), single_particle_exchanges=True)
    # ---- drive, re-assigning parameters through the public properties between steps
    for s in range(spec["steps"]):
        r = rng.random()
        ctx = mc.context
        if r < 0.5:
            T = rand_T(rng)
            # the same number in the representations a script may hold it in: Python float, numpy scalar, 0-d array
            mc.temperature = [T, np.float64(T), np.array(T)][int(rng.integers(0, 3))]
            metropolis.intend(ctx, T=T)
            rec.count("parameter_changes")
        if ens.startswith("iso") and rng.random() < 0.3:
            P = float(rng.choice([-1, 1]) * 10 ** rng.uniform(-6, 1))
            mc.pressure = [P, np.float64(P)][int(rng.integers(0, 2))]
            metropolis.intend(ctx, P=P)
            rec.count("parameter_changes")
            if ens == "isotension-hydro":
                mc.external_stress = P * np.eye(3)
                metropolis.intend(ctx, S=P * np.eye(3))
        if ens == "isotension" and rng.random() < 0.3:
            S = rand_stress(rng)
            mc.external_stress = S
            metropolis.intend(ctx, S=np.array(S, copy=True))
            rec.count("parameter_changes")
        if ens.startswith("grand"):
            q = rng.random()
            if q < 0.2:
                mu = float(rng.uniform(-50, 50))
                mc.chemical_potential = mu
                metropolis.intend(ctx, mu=mu)
                rec.count("parameter_changes")
            elif q < 0.4:
                N0 = int(rng.choice([0, 0, 1, 2, 10, 10000]))
                mc.number_of_exchange_particles = N0
                metropolis.intend(ctx, N=N0)
                rec.count("parameter_changes")
            elif q < 0.55:
                V = float(10 ** rng.uniform(-3, 9))
                mc.accessible_volume = V
                metropolis.intend(ctx, V=V)
                rec.count("parameter_changes")
            elif q < 0.65 and ens == "grand":
                species = Atoms(str(rng.choice(["Ar", "H", "Au", "Cu"])))
                mc.exchange_atoms = species
                metropolis.intend(ctx, species_mass=float(species.get_masses().sum()), species_symbols=list(species.symbols))
                rec.count("parameter_changes")
        if ens.startswith("iso") and metropolis.degenerate_cell(mc.context):
            rec.count("simulations_ended_cell_degenerated")  # random walk of the cell left the domain: start a new simulation
            break
        if outside_edits and rng.random() < 0.3:
            # the user rescales the box between two run calls (another density); the model energy is constant, so nothing
            # else the simulation remembers is affected
            atoms.set_cell(atoms.cell.array * float(rng.uniform(0.7, 1.4)), scale_atoms=True)
            rec.count("cells_rescaled_between_run_calls")
        try:
            for step_ in mc.irun(1):
                for _name in step_:
                    # a trial is about to start: the workload's own record of the configuration it starts from
                    it_ = metropolis.INTENT.get(id(mc.context))
                    if it_ is not None:
                        it_["cell_ref"] = np.array(mc.atoms.cell.array, copy=True)
                        efn = getattr(mc.atoms.calc, "energy", None)
                        if callable(efn):
                            it_["e_ref"] = float(efn(mc.atoms))
                        elif isinstance(efn, float):
                            it_["e_ref"] = efn
        except Exception as ex:  # noqa: BLE001
            rec.count("simulation_aborted")
            rec.data.setdefault("aborts", []).append(f"{ens}: {type(ex).__name__}: {str(ex)[:120]}")
            break


def rand_stress(rng):
    a = rng.normal(size=(3, 3)) * 10 ** rng.uniform(-5, 0)
    if rng.random() < 0.6:
        a = 0.5 * (a + a.T)
    return a


def run_strain(rec, spec, rng):
    """Isotension criteria called directly on documented context fields: unchanged cell -> zero strain;
    pure scaling -> strain proportional to identity; hydrostatic stress -> isobaric decision."""
    from quansino.mc.contexts import DeformationContext
    from quansino.mc.criteria import IsotensionCriteria

    for i in range(spec["sims"]):
        n = int(rng.integers(1, 5))
        atoms = make_atoms(rng, n, float(10 ** rng.uniform(0, 2)), sheared=bool(rng.random() < 0.6))
        atoms.calc = Prescribed(energy=float(rng.normal()))
        ctx = DeformationContext(atoms, np.random.Generator(np.random.PCG64(derive_seed("st", i))))
        T, P = rand_T(rng), float(rng.normal() * 0.01)
        S = rand_stress(rng)
        ctx.temperature, ctx.pressure, ctx.external_stress = T, P, S
        ctx.last_cell = atoms.get_cell()
        ctx.last_potential_energy = float(atoms.get_potential_energy()) + float(rng.normal() * 0.01)
        metropolis.intend(ctx, T=T, P=P, S=np.array(S, copy=True))
        crit = IsotensionCriteria()
        mode = i % 2
        if mode == 1:
            s = float(math.exp(rng.uniform(-0.3, 0.3)))
            atoms.set_cell(atoms.cell.array * s, scale_atoms=True)
        try:
            crit.evaluate(ctx)
        except Exception:  # noqa: BLE001  (reported by the contract)
            continue
        eps = getattr(crit, "strain_tensor", None)
        if eps is None:
            rec.count("strain_not_reported")
            continue
        eps = np.asarray(eps)
        rec.count("strain_checks")
        if mode == 0 and np.abs(eps).max() > 1e-12:
            rec.viol("C02/isotension/strain-nonzero-for-unchanged-cell", f"reported strain {np.abs(eps).max():.3g} although the cell did not change", {"strain": eps})
        if mode == 1:
            off = eps - np.eye(3) * np.trace(eps) / 3
            if np.abs(off).max() > 1e-10 * max(1.0, np.abs(eps).max()):
                rec.viol("C02/isotension/strain-not-isotropic-for-pure-scaling", "reported strain is not proportional to the identity for a pure scaling of the cell", {"strain": eps})


def run_passive(rec, spec, rng):
    from qv import sims, workloads

    for i in range(spec["sims"]):
        # no scripted criteria here: a scripted verdict on an exchange move changes the particle number without the
        # criteria under test (and hence the oracle's particle ledger) seeing the trial
        w = workloads.gen(rng, spec["family"], styles=["plain"], p_scripted=0.0, grand_kinds=["E", "E", "D", "D+E", "D*2+E", "same"])
        try:
            mc, info = sims.build(w)
        except Exception as ex:  # noqa: BLE001
            rec.inconclusive.append(f"passive workload could not be built: {ex}")
            continue
        it = {"T": w["T"]}
        if spec["family"] in ("isobaric", "isotension"):
            it["P"] = w.get("P", 0.0)
            if spec["family"] == "isotension":
                it["S"] = np.array(w["S"])
        if spec["family"] == "grand":
            sp = mc.exchange_atoms
            it.update({"mu": w["mu"], "N": int(mc.number_of_exchange_particles), "V": float(mc.accessible_volume), "species_mass": float(sp.get_masses().sum()), "species_symbols": list(sp.symbols), "single_particle_exchanges": True})
        metropolis.intend(mc.context, **it)
        rec.count("passive_simulations")
        try:
            mc.run(spec["steps"])
        except Exception as ex:  # noqa: BLE001  (crashes of whole simulations are the business of C03-C05)
            rec.count("passive_simulation_aborted")
            rec.data.setdefault("aborts", []).append(f"{type(ex).__name__}: {str(ex)[:100]}")


def run(spec):
    from qv import env

    env.import_quansino()
    rec = Rec(spec["name"])
    metropolis.install(rec)
    rng = rng_for("C02", spec["seed"], spec["name"])
    if spec["ens"] == "passive":
        run_passive(rec, spec, rng)
    elif spec["ens"] == "strain":
        run_strain(rec, spec, rng)
    else:
        for i in range(spec["sims"]):
            run_sim(rec, spec, rng, i)
    rec.data["freq"] = metropolis.freq_data()
    return rec.out()


def finalize(results, tier, seed):
    tot: dict = {}
    for r in results:
        for kind, bins in (r.get("data", {}).get("freq") or {}).items():
            t = tot.setdefault(kind, [[0, 0, 0.0, 0.0] for _ in range(metropolis.BINS)])
            for b, (n, acc, sp, var) in enumerate(bins):
                t[b][0] += n
                t[b][1] += acc
                t[b][2] += sp
                t[b][3] += var
    viol, table = [], {}
    for kind, bins in tot.items():
        row = []
        for b, (n, acc, sp, var) in enumerate(bins):
            if n == 0:
                continue
            z = (acc - sp) / math.sqrt(var) if var > 25 else None
            row.append({"bin": b, "n": n, "accepted": acc, "expected": round(sp, 2), "z": None if z is None else round(z, 2)})
            if z is not None and abs(z) > 6:
                viol.append({"key": f"C02/{kind}/frequency", "what": f"{kind}: acceptance frequency in A-bin {b} is {acc}/{n}, expected {sp:.1f} (z={z:.1f})", "witness": row[-1]})
        table[kind] = row
    return {"violations": viol, "extra": {"acceptance_frequency_by_A_bin": table}}
