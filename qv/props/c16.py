"""C16 - output files are well-formed after every write and after a crash at any point.

Monitors: (1) operation-logging file objects handed to the real Logger, TrajectoryObserver
and RestartObserver record every write / seek / truncate / flush with a global sequence
number, plus a marker when each observer call returns; after every call the file content
is checked (header + one complete flushed line per call; exactly one more parseable
extended-XYZ frame with all earlier bytes untouched; exactly one JSON document describing
the latest state, also after the state shrank).  (2) The recorded operation log is
replayed into a byte-level file model up to EVERY cut point, under two durability models
(all issued bytes reached the file / only flushed bytes did, plus any prefix of the
unflushed tail); at every cut completed records must be intact and the restart file,
once one document has been completed, must decode to a saved state.  (3) The model is
validated against reality: child processes write real files opened by path ('a' and 'w'
mode) and are killed with os._exit at the k-th line event (sys.monitoring) inside the
package's and ASE's I/O functions; the surviving bytes are judged the same way against
an uninterrupted twin run.
The op-log model runs tell the observers both declared file modes ('a' and 'w').
Model runs also start with a zero-length call, hand over logs that already hold something (the run's header must
precede its first row), carry a user field that fails now and then (every row must have as many columns as the header
announces), and include a dilute box that runs empty (frames of zero atoms are frames too).
Every third model run hands its Logger object, pointed at another file, to a second simulation whose log is judged too.
Continuation shards write the three files by path, build a continuation from the restart file on the same paths and
judge the files right after its construction and after each of its first steps (before its first restart write).
"""
from __future__ import annotations

import io
import json
import os
import subprocess
import sys

import numpy as np

from qv.lib import Rec, derive_seed

LEVEL = "fault_enumeration"
EXHAUSTIVE = True
RULE = (
    "fault enumeration: for each recorded run (driver x logging interval x seed) every cut point between two consecutive file operations of every observer call, under both durability "
    "models and three prefix lengths of the unflushed tail (exhaustive over cut points of the recorded logs); plus real process kills at sampled line events. One evaluation = one "
    "(cut point, durability model) or one real kill; distinct by (driver, file kind, operation before the cut, durability model); non-trivial = cuts inside an observer call"
)
ASSUMPTIONS = [
    "crash = process death (os._exit / SIGKILL) including loss of user-space buffers; loss of the OS page cache (power failure without fsync) is not modelled and not claimed",
    "durability model B: bytes written since the last flush / seek / truncate may be lost entirely or partially (any prefix)",
    "a restart document 'describes the latest state' if it decodes with ASE's JSON codec and carries the current step counter and atom count",
]
REQUIRED = {"continuations_on_the_same_paths": 8, "continuation_points_checked": 30, "loggers_handed_to_a_second_simulation": 8, "logs_with_earlier_content": 4, "observer_calls_checked": 150, "cut_points": 400, "real_kills": 20, "restart_docs_shrunk": 3, "restart_docs_grown": 3, "frames_parsed": 100, "log_rows_checked": 50}
SHARD_TIMEOUT = {"quick": 900, "thorough": 3000}


def workloads():
    D = {"t": "D", "op": {"t": "Ball", "step": 0.4}}
    gas = {"kind": "gas", "n": 3, "edge": 7.0, "seed": 3, "extras": ["momenta"]}
    return {
        "Canonical": {"driver": "Canonical", "T": 600.0, "cycles": 2, "atoms": gas, "calc": {"kind": "soft"}, "table": [{"name": "d", "move": D}]},
        "GrandCanonical": {"driver": "GrandCanonical", "T": 3000.0, "mu": 0.0, "cycles": 3, "species": 2, "atoms": {"kind": "molecules", "nmol": 2, "molsize": 2, "framework": 1, "edge": 8.0, "seed": 4}, "calc": {"kind": "ideal"}, "table": [{"name": "x", "move": {"t": "E", "op": {"t": "TranslationRotation"}}, "criteria": "random:0.8"}, {"name": "d", "move": {"t": "D", "op": {"t": "Rotation"}}}]},
        # a dilute box that runs empty and fills again: frames of zero atoms are frames too
        "GrandCanonicalEmptying": {"driver": "GrandCanonical", "T": 3000.0, "mu": 0.0, "cycles": 4, "species": 1, "atoms": {"kind": "gas", "n": 1, "edge": 7.0, "seed": 8}, "calc": {"kind": "ideal"}, "table": [{"name": "x", "move": {"t": "E", "bias": 0.45}, "criteria": "accept"}, {"name": "d", "move": D}]},
        "ForceBias": {"driver": "ForceBias", "T": 300.0, "delta": 0.1, "atoms": {"kind": "mixed", "n": 4, "edge": 8.0, "pbc": False, "seed": 6}, "calc": {"kind": "harmonic", "k": 1.0}},
        "Isobaric": {"driver": "Isobaric", "T": 800.0, "P": 0.01, "cycles": 2, "atoms": gas, "calc": {"kind": "soft"}, "table": [{"name": "c", "move": {"t": "C", "op": {"t": "Iso", "mv": 0.05}}}, {"name": "d", "move": D}]},
    }


def plan(tier, seed):
    big = tier != "quick"
    specs = []
    for d in workloads():
        for li in (1, 3):
            for s in range(1 if not big else 3):
                # the op-logging file objects write where the position is (like a file opened with "w"); the observers
                # are told both modes, since they may (and a changed tree did) behave differently per declared mode
                for fmode in ("a", "w"):
                    specs.append({"name": f"model-{d}-L{li}-{fmode}-s{s}", "mode": "model", "driver": d, "li": li, "fmode": fmode, "steps": 10 if not big else 40, "seed": seed, "s": s})
    for d in workloads():
        if not d.endswith("ForceBias"):  # (force-bias drivers cannot write a restart file: listed finding of C07)
            for li in (1, 2):
                specs.append({"name": f"continue-{d}-L{li}", "mode": "continue", "driver": d, "li": li, "seed": seed})
    for d in ("Canonical", "GrandCanonical", "ForceBias"):
        for fmode in ("a", "w"):
            specs.append({"name": f"kill-{d}-{fmode}", "mode": "kill", "driver": d, "fmode": fmode, "steps": 6, "kills": 8 if not big else 150, "seed": seed})
    return specs


# ----------------------------------------------------------------------------- op-logging files
OPLOG: list = []


class OpFile(io.StringIO):
    """Seekable in-memory text file that records every operation issued by the observers."""

    def __init__(self, kind):
        super().__init__()
        self.kind = kind

    def write(self, data):
        OPLOG.append((self.kind, "write", data))
        return super().write(data)

    def seek(self, pos, whence=0):
        OPLOG.append((self.kind, "seek", (pos, whence)))
        return super().seek(pos, whence)

    def truncate(self, size=None):
        OPLOG.append((self.kind, "truncate", size))
        return super().truncate(size)

    def flush(self):
        OPLOG.append((self.kind, "flush", None))
        return super().flush()

    def writelines(self, lines):
        for ln in lines:
            self.write(ln)


def install_markers(state):
    """Wrap the three observers' __call__ (class attributes) to mark call boundaries in the op log."""
    from quansino.io.logger import Logger
    from quansino.io.restart import RestartObserver
    from quansino.io.trajectory import TrajectoryObserver

    for cls, kind in ((Logger, "log"), (TrajectoryObserver, "traj"), (RestartObserver, "rst")):
        orig = cls.__dict__["__call__"]

        def call(self, _orig=orig, _kind=kind):
            OPLOG.append((_kind, "call_begin", None))
            try:
                out = _orig(self)
            except Exception:
                OPLOG.append((_kind, "call_aborted", None))
                raise
            OPLOG.append((_kind, "call_end", state["snapshot"]()))
            return out

        cls.__call__ = call
    orig_h = Logger.__dict__["write_header"]

    def write_header(self):
        OPLOG.append(("log", "call_begin", None))
        out = orig_h(self)
        OPLOG.append(("log", "header_end", None))
        return out

    Logger.write_header = write_header


# ----------------------------------------------------------------------------- file model
class Model:
    def __init__(self):
        self.content = ""
        self.pos = 0
        self.durable = ""  # content as of the last flush / seek / truncate
        self.tail_start = None

    def apply(self, op, arg):
        if op == "write":
            c = self.content
            if self.pos > len(c):
                c = c + "\0" * (self.pos - len(c))
            self.content = c[: self.pos] + arg + c[self.pos + len(arg) :]
            self.pos += len(arg)
        elif op == "seek":
            pos, whence = arg
            self.pos = pos if whence == 0 else (self.pos + pos if whence == 1 else len(self.content) + pos)
            self.durable = self.content
        elif op == "truncate":
            size = self.pos if arg is None else arg
            self.content = self.content[:size]
            self.durable = self.content
        elif op == "flush":
            self.durable = self.content

    def variants(self):
        """Possible file contents if the process dies now: model A (all issued) and model B (flushed + prefixes)."""
        out = [("A", self.content)]
        if self.durable != self.content and self.content.startswith(self.durable):
            tail = self.content[len(self.durable) :]
            for frac in (0.0, 0.5, 1.0):
                out.append((f"B{frac}", self.durable + tail[: int(len(tail) * frac)]))
        elif self.durable != self.content:
            out.append(("B", self.durable))
        return out


def parse_frames(text):
    from ase.io import read

    if not text.strip():
        return []
    return read(io.StringIO(text), index=":", format="extxyz")


def restart_ok(text, saved):
    """Does the text decode to one of the saved states?  -> (ok, why)"""
    from ase.io.jsonio import decode

    if text in saved:
        return True, ""
    try:
        json.loads(text)
        decode(text)
    except Exception as ex:  # noqa: BLE001
        return False, f"{type(ex).__name__}"
    return False, "decodes but is not a saved state"


def judge_run(rec: Rec, oplog, wit0, driver):
    """Clauses 1 (after every call) and 2 (every cut point) on one recorded op log."""
    models = {"log": Model(), "traj": Model(), "rst": Model()}
    done = {"log": [], "traj": [], "rst": []}  # completed record contents (M1) per call
    rows = {"log": 0}
    header_done = False
    in_call = {"log": False, "traj": False, "rst": False}
    last_op = {"log": None, "traj": None, "rst": None}
    saved_docs: list = []
    sizes: list = []
    # pre-pass: every document the run saved (a crash may legitimately leave the NEW complete document)
    all_saved: set = set()
    pm = Model()
    for kind, op, arg in oplog:
        if kind != "rst":
            continue
        if op == "call_end":
            all_saved.add(pm.content)
        elif op not in ("call_begin",):
            pm.apply(op, arg)
    in_rewrite = False
    for i, (kind, op, arg) in enumerate(oplog):
        m = models[kind]
        if op == "call_begin":
            in_call[kind] = True
            continue
        if op == "call_aborted":
            # the observer's call raised (a user field failed): not a completed call; what the file holds is judged at
            # the next completed one
            in_call[kind] = False
            rec.count("observer_calls_aborted_by_a_failing_field")
            continue
        if op in ("call_end", "header_end"):
            in_call[kind] = False
            wit = {**wit0, "file": kind, "op_index": i}
            if op == "header_end":
                header_done = True
                if not m.content.endswith("\n") or m.content.count("\n") != 1:
                    rec.viol("C16/log/header-malformed", f"after write_header the log holds {m.content!r}"[:200], wit)
                # the header is flushed together with the first row: it becomes a completed record with that call
                continue
            rec.count("observer_calls_checked")
            snap = arg or {}
            if m.durable != m.content:
                rec.viol(f"C16/{kind}/unflushed-after-call", f"{len(m.content) - len(m.durable)} bytes are still unflushed when the {kind} observer returns", wit)
            if kind == "log":
                rows["log"] += 1
                rec.count("log_rows_checked")
                if rows["log"] == 1 and not header_done:
                    rec.viol("C16/log/header-missing", "the first row was written although the run's header had not been written", wit)
                lines = m.content.split("\n")
                if not m.content.endswith("\n") or len(lines) - 1 != rows["log"] + (1 if header_done else 0):
                    rec.viol("C16/log/not-one-line-per-call", f"log has {len(lines) - 1} complete lines after {rows['log']} calls (+header={header_done})", wit)
                if done["log"] and not m.content.startswith(done["log"][-1]):
                    rec.viol("C16/log/earlier-lines-changed", "earlier log lines changed", wit)
                if header_done and len(lines) >= 3:
                    # every row is one complete record: as many columns as the header announces
                    ncol = len(lines[0].split())
                    bad = [k for k, ln in enumerate(lines[1:-1], start=1) if len(ln.split()) != ncol]
                    if bad:
                        rec.viol("C16/log/row-not-one-complete-record", f"log line {bad[0]} has {len(lines[bad[0]].split())} columns, the header announces {ncol}: {lines[bad[0]][:120]!r}", wit)
                done["log"].append(m.content)
            elif kind == "traj":
                try:
                    frames = parse_frames(m.content)
                    rec.count("frames_parsed", len(frames))
                    if len(frames) != len(done["traj"]) + 1:
                        rec.viol("C16/traj/not-one-frame-per-call", f"trajectory holds {len(frames)} frames after {len(done['traj']) + 1} calls", wit)
                    elif snap and len(frames[-1]) != snap.get("natoms"):
                        rec.viol("C16/traj/frame-not-current", f"last frame has {len(frames[-1])} atoms, simulation has {snap.get('natoms')}", wit)
                except Exception as ex:  # noqa: BLE001
                    rec.viol("C16/traj/unparseable-after-call", f"trajectory does not parse after a completed call: {type(ex).__name__}: {ex}"[:200], wit)
                if done["traj"] and not m.content.startswith(done["traj"][-1]):
                    rec.viol("C16/traj/earlier-bytes-changed", "bytes of earlier frames changed", wit)
                done["traj"].append(m.content)
            else:
                from ase.io.jsonio import decode

                try:
                    json.loads(m.content)
                    d = decode(m.content)
                    if snap and (d.get("attributes", {}).get("step_count") != snap.get("step") or len(d["atoms"]) != snap.get("natoms")):
                        rec.viol("C16/rst/document-not-latest-state", f"restart document describes step {d.get('attributes', {}).get('step_count')} / {len(d['atoms'])} atoms, simulation is at step {snap.get('step')} / {snap.get('natoms')} atoms", wit)
                except Exception as ex:  # noqa: BLE001
                    grew = "after-shrink" if sizes and len(m.content) < max(sizes) else "other"
                    rec.viol(f"C16/rst/not-one-json-document/{grew}", f"restart file is not exactly one JSON document after a completed call: {type(ex).__name__}: {ex}"[:200], wit)
                if sizes:
                    if len(m.content) < sizes[-1]:
                        rec.count("restart_docs_shrunk")
                    elif len(m.content) > sizes[-1]:
                        rec.count("restart_docs_grown")
                sizes.append(len(m.content))
                saved_docs.append(m.content)
                done["rst"].append(m.content)
            continue
        prev = last_op[kind]
        m.apply(op, arg)
        last_op[kind] = op
        if kind == "rst":
            if op == "truncate":
                in_rewrite = True
            elif op == "flush":
                in_rewrite = False
        # ---- clause 2: the process dies right after this operation
        for mname, text in m.variants():
            rec.count("cut_points")
            rec.evaluations += 1
            model = "all-issued" if mname == "A" else "flushed-only"
            if in_call[kind]:
                rec.case(driver, kind, f"{prev}->{op}", model)
            wit = {**wit0, "file": kind, "op_index": i, "after_operation": op, "durability_model": mname}
            if kind in ("log", "traj"):
                base = done[kind][-1] if done[kind] else ""
                if not text.startswith(base):
                    rec.viol(f"C16/{kind}/completed-records-damaged-by-crash/after-{op}", f"a crash after '{op}' leaves a file in which previously completed {'lines' if kind == 'log' else 'frames'} are damaged", wit)
            elif saved_docs:
                ok, why = restart_ok(text, all_saved)
                if not ok:
                    where = "between-truncate-and-flush" if in_rewrite else f"other/after-{op}"
                    rec.viol(f"C16/rst/unloadable-after-crash/{where}", f"a crash right after '{op}' of the restart rewrite leaves a file that does not load to a saved state ({why}; {len(text)} bytes)", wit)
    rec.sample({**wit0, "operations": len(oplog), "restart_doc_sizes": sizes[:8], "log_head": (done["log"][-1][:120] if done["log"] else "")}, cap=2)


def run_model(spec, rec):
    from qv import sims

    w = workloads()[spec["driver"]]
    seed = derive_seed("c16", spec["seed"], spec["driver"], spec["s"])
    state = {}
    OPLOG.clear()
    files = {"log": OpFile("log"), "traj": OpFile("traj"), "rst": OpFile("rst")}
    if spec["s"] % 2 == 1 or spec.get("fmode") == "w" and spec["li"] == 3:
        # the log stream already holds something when the simulation gets it (a comment written by the script, the log
        # of an earlier stage): this run's header and rows follow it
        files["log"].write("# stage 2 of the workflow, appended to the log of stage 1\n")
        rec.count("logs_with_earlier_content")
        OPLOG.clear()  # what is judged is what this run adds after it
    kw = {"logfile": files["log"], "trajectory": files["traj"], "logging_interval": spec["li"], "logging_mode": spec.get("fmode", "a")}
    if not w["driver"].endswith("ForceBias"):
        kw["restart_file"] = files["rst"]
    mc, _ = sims.build({**w, "seed": seed}, **kw)
    state["snapshot"] = lambda: {"step": int(mc.step_count), "natoms": len(mc.atoms)}
    install_markers(state)
    wit0 = {"driver": spec["driver"], "logging_interval": spec["li"], "declared_mode": spec.get("fmode", "a"), "seed": seed, "steps": spec["steps"]}
    failing = spec.get("fmode", "a") == "a" and spec["li"] == 1 and mc.default_logger is not None
    if failing:
        # a user field that fails now and then (a calculator-backed quantity that is not available on some steps): the
        # script catches the error and goes on; every completed call must still leave one complete record
        calls = {"n": 0}

        def flaky():
            calls["n"] += 1
            if calls["n"] in (3, 4, 8):
                raise RuntimeError("value not available on this step")
            return float(calls["n"])

        mc.default_logger.add_field("Flaky", flaky, "{:>10.3f}")
    try:
        # split the run to exercise repeated irun entries as well; every other shard starts with a zero-length call
        # (dump the initial state, then run): header and step-0 records must still be there exactly once
        if spec.get("fmode", "a") == "w" or spec["li"] == 3:
            mc.run(0)
        for part in (spec["steps"] // 2, spec["steps"] - spec["steps"] // 2):
            target = int(mc.step_count) + part
            for _attempt in range(8):
                try:
                    mc.run(target - int(mc.step_count))
                    break
                except RuntimeError as ex:
                    if not failing or "not available" not in str(ex):
                        raise
                    rec.count("runs_continued_after_a_failing_field")
    except Exception as ex:  # noqa: BLE001
        rec.viol(f"C16/run-raised/{type(ex).__name__}", f"run with observers raised {type(ex).__name__}: {ex}"[:300], wit0)
        return
    judge_run(rec, list(OPLOG), wit0, spec["driver"])
    if spec["s"] % 3 == 0 and mc.default_logger is not None and not failing:
        # stage 2 of a sweep: the same Logger object pointed at another file (its documented `file` attribute) and handed to
        # the next simulation: that file gets its own header and rows
        lg = mc.default_logger
        OPLOG.clear()
        files2 = {"log": OpFile("log"), "traj": OpFile("traj"), "rst": OpFile("rst")}
        try:
            lg.file = files2["log"]
            kw2 = {"logfile": lg, "trajectory": files2["traj"], "logging_interval": spec["li"], "logging_mode": spec.get("fmode", "a")}
            if not w["driver"].endswith("ForceBias"):
                kw2["restart_file"] = files2["rst"]
            mc2, _ = sims.build({**w, "seed": seed + 1}, **kw2)
            state["snapshot"] = lambda: {"step": int(mc2.step_count), "natoms": len(mc2.atoms)}
            mc2.run(spec["steps"] // 2)
        except Exception as ex:  # noqa: BLE001
            rec.viol(f"C16/run-raised/{type(ex).__name__}/logger-handed-to-the-next-simulation", f"a run with the logger of an earlier simulation raised {type(ex).__name__}: {ex}"[:300], wit0)
            return
        rec.count("loggers_handed_to_a_second_simulation")
        judge_run(rec, list(OPLOG), {**wit0, "stage": "second simulation with the first one's Logger object, file re-assigned"}, spec["driver"])


# ----------------------------------------------------------------------------- continuation on the same paths
def run_continue(spec, rec):
    """A run writes log, trajectory and restart file by path; a continuation is then built from the restart file ON THE SAME
    PATHS with the default (append) mode.  Crash point 0 of the continuation - after its construction, before its first
    file operation of an observer call - and every point up to its first restart write: all earlier log lines and frames
    are still there and the restart file still loads to a state that was saved."""
    from ase.io.jsonio import read_json

    from quansino.registry import get_class
    from qv import sims

    w = dict(workloads()[spec["driver"]])
    w["seed"] = derive_seed("c16c", spec["seed"], spec["driver"], spec["li"])
    base = os.path.join(os.getcwd(), "continue-" + spec["name"])
    os.makedirs(base, exist_ok=True)
    paths = {k: os.path.join(base, f"run.{ext}") for k, ext in (("log", "log"), ("traj", "xyz"), ("rst", "json"))}
    for p_ in paths.values():
        if os.path.exists(p_):
            os.remove(p_)

    def slurp(path):
        with open(path) as fh:
            return fh.read()

    wit0 = {"driver": spec["driver"], "logging_interval_of_the_first_run": spec["li"], "files": "by path, default mode"}
    try:
        mc, _ = sims.build(w, logfile=paths["log"], trajectory=paths["traj"], restart_file=paths["rst"], logging_interval=spec["li"])
        mc.run(6)
        mc.close()
    except Exception as ex:  # noqa: BLE001
        rec.viol(f"C16/run-raised/{type(ex).__name__}/files-by-path", f"a run with files given by path raised {type(ex).__name__}: {ex}"[:300], wit0)
        return
    before = {k: slurp(p_) for k, p_ in paths.items()}
    saved = read_json(paths["rst"])
    saved_step = int(saved.get("kwargs", {}).get("step_count", saved.get("step_count", -1))) if isinstance(saved, dict) else -1
    rec.evaluations += 1

    def judge(stage):
        rec.count("continuation_points_checked")
        now = {k: slurp(p_) for k, p_ in paths.items()}
        wit = {**wit0, "stage": stage}
        if not now["log"].startswith(before["log"]):
            rec.viol("C16/log/earlier-lines-lost/continuation-on-the-same-path", f"{stage}: the log no longer begins with the {len(before['log'].splitlines())} lines the first run had completed", wit)
        if not now["traj"].startswith(before["traj"]):
            rec.viol("C16/traj/earlier-bytes-changed/continuation-on-the-same-path", f"{stage}: the trajectory no longer begins with the frames the first run had completed", wit)
        try:
            doc = read_json(paths["rst"])
            ok = isinstance(doc, dict) and "name" in doc
        except Exception:  # noqa: BLE001
            ok = False
        if not ok:
            rec.viol("C16/rst/unloadable/continuation-on-the-same-path", f"{stage}: the restart file ({len(now['rst'])} bytes) does not load although the first run had completed a document of {len(before['rst'])} bytes", wit)

    try:
        cls = get_class(saved["name"])
        cont = cls.from_dict(saved, logfile=paths["log"], trajectory=paths["traj"], restart_file=paths["rst"], logging_interval=50)
        cont.atoms.calc = sims.build_calc(w.get("calc", {}), sims.build_atoms(w.get("atoms", {}))[0])
        judge("right after the continuation was constructed")
        for k_ in range(3):
            cont.run(1)
            judge(f"after {k_ + 1} step(s) of the continuation, before its first restart write")
        cont.close()
    except Exception as ex:  # noqa: BLE001
        rec.viol(f"C16/run-raised/{type(ex).__name__}/continuation-on-the-same-path", f"continuing on the same paths raised {type(ex).__name__}: {ex}"[:300], wit0)
        return
    rec.count("continuations_on_the_same_paths")
    rec.sample({**wit0, "first_run_saved_step": saved_step, "bytes_before": {k: len(v) for k, v in before.items()}}, cap=1)


# ----------------------------------------------------------------------------- real kills
CHILD = r"""
import os, sys, json, warnings
warnings.simplefilter("ignore")
job = json.loads(sys.stdin.read())
from qv import env
env.import_quansino()
from qv import sims
from quansino.mc.driver import Driver
marker = os.open(job["marker"], os.O_WRONLY | os.O_CREAT | os.O_TRUNC)
orig = Driver.call_observers
def call_observers(self):
    orig(self)
    os.write(marker, b"%d\n" % self.step_count)
Driver.call_observers = call_observers
kw = {"logfile": job["log"], "trajectory": job["traj"], "logging_interval": 1, "logging_mode": job["fmode"]}
if job["rst"]:
    kw["restart_file"] = job["rst"]
mc, _ = sims.build(job["w"], **kw)
k = job["kill_at"]
if k is not None:
    mon = sys.monitoring
    mon.use_tool_id(2, "qv-c16")
    count = [0]
    trail = []
    targets = ("/quansino/io/", "/ase/io/extxyz.py", "/ase/io/jsonio.py")
    def on_line(code, line):
        fn = code.co_filename
        if not any(t in fn for t in targets):
            return mon.DISABLE
        count[0] += 1
        if job.get("probe"):
            trail.append((fn.rsplit("/", 1)[-1], line))
        if count[0] >= k:
            os._exit(137)
    mon.register_callback(2, mon.events.LINE, on_line)
    mon.set_events(2, mon.events.LINE)
mc.run(job["steps"])
if k is not None:
    print(json.dumps({"events": count[0], "trail": trail}))
"""


def run_child(job, timeout=300):
    from qv import env

    e = dict(os.environ)
    e["PYTHONPATH"] = env.VERIF + os.pathsep + env.SRC
    p = subprocess.run([env.PY, "-c", CHILD], input=json.dumps(job), capture_output=True, text=True, timeout=timeout, env=e)
    return p


def run_kill(spec, rec):
    from ase.io.jsonio import decode

    w = dict(workloads()[spec["driver"]])
    w["seed"] = derive_seed("c16k", spec["seed"], spec["driver"])
    base = os.path.join(os.getcwd(), "kill-" + spec["name"])
    os.makedirs(base, exist_ok=True)
    has_rst = not w["driver"].endswith("ForceBias")

    def job(tag, kill_at):
        d = os.path.join(base, tag)
        os.makedirs(d, exist_ok=True)
        j = {"w": w, "steps": spec["steps"], "fmode": spec["fmode"], "kill_at": kill_at, "log": os.path.join(d, "run.log"), "traj": os.path.join(d, "run.xyz"), "rst": os.path.join(d, "run.json") if has_rst else None, "marker": os.path.join(d, "marker")}
        for k in ("log", "traj", "rst"):
            if j[k] and os.path.exists(j[k]):
                os.remove(j[k])
        return j

    def slurp(path):
        if not path or not os.path.exists(path):
            return ""
        with open(path) as fh:
            return fh.read()

    ref = job("ref", None)
    p = run_child(ref)
    if p.returncode != 0:
        import re as _re

        from qv import env

        frames = _re.findall(r'File "([^"]+)", line \d+, in (\S+)', p.stderr or "")
        last = (p.stderr or "").strip().splitlines()[-1:] or [""]
        if frames and os.path.abspath(frames[-1][0]).startswith(os.path.abspath(env.SRC) + os.sep) and "Error" in last[0]:
            # an ordinary run whose three output files are given by path dies inside the package: no file is well-formed
            rec.evaluations += 1
            rec.viol(f"C16/run-with-files-by-path-raised/{last[0].split(':')[0]}@{os.path.relpath(frames[-1][0], env.SRC)}:{frames[-1][1]}", f"an uninterrupted run writing log, trajectory and restart file by path raised: {last[0]}"[:300], {"driver": spec["driver"], "file_mode": spec["fmode"], "stderr_tail": p.stderr[-600:]})
            return
        rec.inconclusive.append(f"reference child failed: {p.stderr[-300:]}")
        return
    ref_log, ref_traj = slurp(ref["log"]), slurp(ref["traj"])
    # saved restart states of the uninterrupted twin: reproduce them in-process from an op-logging run
    probe = job("probe", 10**9)
    probe["probe"] = True
    p = run_child(probe)
    pj = json.loads(p.stdout.strip().splitlines()[-1]) if p.returncode == 0 and p.stdout.strip() else {"events": 0, "trail": []}
    total = pj["events"]
    if total < 10:
        rec.inconclusive.append(f"line-event failpoints never reached ({total} events): {p.stderr[-200:]}")
        return
    rec.data["line_events_total"] = total
    # kill points: evenly spread, plus every line event inside the restart observer's rewrite of two late rounds
    ks = {int(x) for x in np.linspace(1, total, spec["kills"])}
    rst_events = [i + 1 for i, (fn, ln) in enumerate(pj["trail"]) if fn == "restart.py"]
    ks.update(rst_events[-12:])
    ks.update(rst_events[len(rst_events) // 2 : len(rst_events) // 2 + 6])
    ks = sorted(ks)
    for k in ks:
        jb = job(f"k{k}", k)
        p = run_child(jb)
        rec.evaluations += 1
        if p.returncode != 137:
            rec.count("kills_missed")
            continue
        rec.count("real_kills")
        done_calls = len(slurp(jb["marker"]).split())
        wit = {"driver": spec["driver"], "file_mode": spec["fmode"], "kill_at_line_event": k, "of": total, "completed_observer_rounds": done_calls}
        rec.case(spec["driver"], spec["fmode"], "kill", done_calls)
        log, traj, rst = slurp(jb["log"]), slurp(jb["traj"]), slurp(jb["rst"])
        # completed lines / frames of the twin run must be present and intact
        if not ref_log.startswith(log):
            rec.viol("C16/log/real-kill-damaged-lines", "the surviving log is not a prefix of the uninterrupted run's log", {**wit, "log_tail": log[-120:]})
        elif log.count("\n") < (1 + done_calls if done_calls else 0):
            rec.viol("C16/log/real-kill-lost-completed-lines", f"{done_calls} observer rounds had completed but the log holds {log.count(chr(10))} lines", wit)
        if not ref_traj.startswith(traj):
            rec.viol("C16/traj/real-kill-damaged-frames", "the surviving trajectory is not a prefix of the uninterrupted run's trajectory", wit)
        else:
            try:
                whole = traj[: traj.rfind("\n") + 1]
                nfr = 0
                # count complete frames: parse as many as the twin has within the surviving length
                frames = parse_frames(ref_traj)
                off = 0
                for fr in frames:
                    n = len(fr)
                    # frame = count line + comment line + n atom lines
                    end = off
                    for _ in range(n + 2):
                        end = ref_traj.index("\n", end) + 1
                    if end <= len(whole):
                        nfr += 1
                        off = end
                    else:
                        break
                if nfr < done_calls:
                    rec.viol("C16/traj/real-kill-lost-completed-frames", f"{done_calls} observer rounds had completed but only {nfr} complete frames survive", wit)
            except Exception as ex:  # noqa: BLE001
                rec.inconclusive.append(f"frame accounting failed: {ex}")
        if has_rst and done_calls >= 1:
            try:
                d = decode(rst)
                sc = d.get("attributes", {}).get("step_count")
                if sc is None or sc > done_calls:
                    rec.viol("C16/rst/real-kill-not-a-saved-state", f"surviving restart file decodes to step {sc}, {done_calls} rounds completed", wit)
            except Exception as ex:  # noqa: BLE001
                loc = pj["trail"][k - 1] if 0 < k <= len(pj["trail"]) else ("?", 0)
                where = "inside-restart-rewrite" if loc[0] in ("restart.py", "jsonio.py") else f"elsewhere-{loc[0]}"
                rec.viol(f"C16/rst/unloadable-after-real-kill/{where}", f"process killed at {loc[0]}:{loc[1]} inside the restart rewrite: the surviving restart file ({len(rst)} bytes) does not load ({type(ex).__name__}) although {done_calls} documents had been completed before", wit)
        rec.sample(wit, cap=2)
    import shutil

    shutil.rmtree(base, ignore_errors=True)


def run(spec):
    from qv import env

    env.import_quansino()
    rec = Rec(spec["name"])
    {"model": run_model, "kill": run_kill, "continue": run_continue}[spec["mode"]](spec, rec)
    return rec.out()
