"""C19 - reinsertion inverts deletion; molecule search partitions atoms by bonds.

Monitors: a contract around the real `reinsert_atoms` (snapshot before deletion, bitwise
comparison of every per-atom array, dtype, shape and row order after reinsertion) and a
contract around the real `search_molecules` whose oracle is an independent union-find
over explicitly computed periodic-image distances, compared as a *partition* (label
values are free) plus "everything else keeps the supplied default".
Workloads: 0-40 atoms, mixed species, tags / momenta / charges / magmoms / masses /
custom 2-D int32, float32, bool and string arrays; every index subset in every order
for n <= 5 (6 in the thorough tier), random subsets and permutations above; geometries
from dilute to percolating, periodic (triclinic) and not; scalar, per-pair dict and
per-atom radius cutoffs; size filters int / tuple / None; default arrays None / constant
/ arbitrary negative / arbitrary non-negative.
Cells are fully, partially (slab, wire) or not periodic.
Dict cutoffs also name species by atomic number; reinsertion is also run with an isotope substitution on the atoms
that stayed.  Some cells are shorter than the cutoff along one or two periodic directions (atoms within the cutoff of
their own images).
"""
from __future__ import annotations

import itertools

import numpy as np

from qv.lib import Rec, diff_snap, rng_for, snap_atoms

PACKAGE_RAISE_IS_VIOLATION = True  # every shard input is built inside the statement's domain (see qv/shard.py)
LEVEL = "exploration"
RULE = (
    "reinsertion: one evaluation = delete(indices) then reinsert on an atoms object with a random set of per-atom arrays; "
    "distinct by (n atoms, index tuple, array set); non-trivial when at least one atom is deleted and one kept or order is not ascending. "
    "molecule search: one evaluation = one (geometry, cutoff, size filter, default) query; distinct by (n, pbc, cutoff kind, filter kind, default kind, "
    "partition signature); non-trivial when at least one within-cutoff pair exists"
)
ASSUMPTIONS = [
    "ASE neighbor_list cutoff semantics: scalar = distance < cutoff; dict = per element pair; per-atom list = distance < r_i + r_j",
    "index sets contain distinct non-negative indices (negative indices are not part of the statement)",
    "a default array with non-negative entries may coincide with a molecule label; such coincidences are counted but not judged (statement ambiguous)",
    "whether search_molecules may write into the caller's default array is not judged",
]
REQUIRED = {"search_dict_keys_by_atomic_number": 20, "reinsert_after_isotope_substitution": 30, "reinsert_checked": 500, "reinsert_unsorted": 100, "search_checked": 300, "search_with_default_array": 60, "search_bonded": 100, "search_filtered_out": 50, "search_cell_shorter_than_cutoff": 40, "search_cell_shorter_than_cutoff_single_atoms_filtered": 10}
SHARD_TIMEOUT = {"quick": 600, "thorough": 2400}


def plan(tier, seed):
    specs = []
    nmax = 5 if tier == "quick" else 6
    for n in range(1, nmax + 1):
        specs.append({"name": f"reinsert-exh{n}", "mode": "rexh", "n": n, "seed": seed})
    nr = 6 if tier == "quick" else 12
    for j in range(nr):
        specs.append({"name": f"reinsert-rand{j}", "mode": "rrand", "j": j, "seed": seed, "cases": 1000 if tier == "quick" else 25000})
    for j in range(8 if tier == "quick" else 16):
        specs.append({"name": f"search{j}", "mode": "search", "j": j, "seed": seed, "cases": 300 if tier == "quick" else 5000})
    return specs


SPECIES = ["H", "C", "O", "Ar", "Cu", "N"]


def make_atoms(rng, n, rich=True):
    from ase import Atoms

    syms = [SPECIES[int(i)] for i in rng.integers(0, len(SPECIES), n)]
    cell = np.diag(rng.uniform(4, 9, 3)) + rng.uniform(-1, 1, (3, 3)) * (rng.random() < 0.5)
    atoms = Atoms(syms, positions=rng.uniform(-1, 8, (n, 3)), cell=cell, pbc=bool(rng.random() < 0.6))
    which = []
    if rich:
        if rng.random() < 0.7:
            atoms.set_tags(rng.integers(0, 5, n))
            which.append("tags")
        if rng.random() < 0.7:
            atoms.set_momenta(rng.normal(size=(n, 3)))
            which.append("momenta")
        if rng.random() < 0.5:
            atoms.set_initial_charges(rng.normal(size=n))
            which.append("charges")
        if rng.random() < 0.3:
            atoms.set_initial_magnetic_moments(rng.normal(size=n))
            which.append("magmoms")
        if rng.random() < 0.4:
            atoms.set_masses(rng.uniform(1, 200, n))
            which.append("masses")
        if rng.random() < 0.6:
            atoms.set_array("qv_i2", rng.integers(-9, 9, (n, 2)).astype(np.int32))
            which.append("i2")
        if rng.random() < 0.5:
            atoms.set_array("qv_f32", rng.normal(size=(n, 2, 2)).astype(np.float32))
            which.append("f32")
        if rng.random() < 0.4:
            atoms.set_array("qv_b", rng.random(n) < 0.5)
            which.append("bool")
        if rng.random() < 0.3:
            atoms.set_array("qv_s", np.array([f"r{int(i)}" for i in rng.integers(0, 99, n)]))
            which.append("str")
    return atoms, which


def check_reinsert(rec: Rec, atoms, which, idx, isotope=None):
    from quansino.utils.atoms import reinsert_atoms

    idx = [int(i) for i in idx]
    before = snap_atoms(atoms)
    deleted = atoms[idx]
    work = atoms.copy()
    del work[idx]
    if isotope is not None and "masses" not in atoms.arrays and 0 < len(idx) < len(atoms):
        # the atoms that stayed are given explicit masses while the others are away (an isotope substitution): the
        # restored system is the original with the same substitution, the returning atoms keeping their own masses
        keep = [i for i in range(len(atoms)) if i not in set(idx)]
        work.set_masses(isotope[: len(keep)])
        expected = atoms.copy()
        m = expected.get_masses()
        m[keep] = isotope[: len(keep)]
        expected.set_masses(m)
        before = snap_atoms(expected)
        rec.count("reinsert_after_isotope_substitution")
    rec.evaluations += 1
    wit = {"natoms": len(atoms), "indices": idx, "arrays": sorted(atoms.arrays), "dtypes": {k: str(v.dtype) for k, v in atoms.arrays.items()}}
    try:
        out = reinsert_atoms(work, deleted, np.array(idx, dtype=int) if len(idx) % 2 else idx)
    except Exception as ex:  # noqa: BLE001
        rec.viol(f"C19/reinsert/raised/{type(ex).__name__}", f"reinsert_atoms raised {type(ex).__name__}: {ex}", wit)
        return
    rec.count("reinsert_checked")
    asc = idx == sorted(idx)
    if not asc:
        rec.count("reinsert_unsorted")
    if 0 < len(idx) < len(atoms) or not asc:
        rec.case("re", len(atoms), tuple(idx), ",".join(which))
    target = work if out is None else out
    d = diff_snap(before, snap_atoms(target))
    d = [x for x in d if not x.startswith("constraints")]
    if d:
        kinds = sorted({x.split("'")[1] if "'" in x else x.split()[0] for x in d})
        aspect = "dtype" if any("dtype" in x for x in d) else ("set" if any("vanished" in x or "appeared" in x for x in d) else "values")
        rec.viol(f"C19/reinsert/{aspect}/{'sorted' if asc else 'unsorted'}-indices", f"delete+reinsert did not restore the atoms: {d[:4]}", {**wit, "arrays_affected": kinds})
    rec.sample(wit, cap=2)


def run_rexh(spec, rec):
    n = spec["n"]
    rng = rng_for("C19x", spec["seed"], n)
    for r in range(0, n + 1):
        for sub in itertools.combinations(range(n), r):
            for perm in itertools.permutations(sub):
                atoms, which = make_atoms(rng, n)
                check_reinsert(rec, atoms, which, perm)


def run_rrand(spec, rec):
    rng = rng_for("C19r", spec["seed"], spec["j"])
    for _ in range(spec["cases"]):
        n = int(rng.integers(1, 41))
        atoms, which = make_atoms(rng, n)
        mode = rng.random()
        if mode < 0.1:
            k = n
        elif mode < 0.2:
            k = 1
        else:
            k = int(rng.integers(0, n + 1))
        idx = rng.permutation(n)[:k]
        if rng.random() < 0.3:
            idx = np.sort(idx)
        elif rng.random() < 0.2:
            idx = np.sort(idx)[::-1]
        check_reinsert(rec, atoms, which, idx, isotope=rng.uniform(1, 250, n) if rng.random() < 0.15 else None)


# ----------------------------------------------------------------------------- molecule search
def pair_matrix(atoms, cutoff):
    """Independent adjacency: explicit minimum over periodic images, pair by pair."""
    n = len(atoms)
    pos = atoms.positions
    cell = atoms.cell.array
    pbc = atoms.pbc
    syms = atoms.get_chemical_symbols()
    if isinstance(cutoff, dict):
        cmax = max(cutoff.values())
    elif isinstance(cutoff, (list, tuple, np.ndarray)):
        cmax = 2 * max(cutoff)
    else:
        cmax = cutoff
    sym_cut = {}
    if isinstance(cutoff, dict):
        from ase.data import chemical_symbols as _S

        sym_cut = {tuple(k if isinstance(k, str) else _S[int(k)] for k in key): v for key, v in cutoff.items()}
    shifts = [np.zeros(3)]
    if pbc.any():
        recip = np.linalg.inv(cell).T  # rows: reciprocal vectors / 2pi
        heights = 1.0 / np.linalg.norm(recip, axis=1)
        reps = [int(np.ceil(cmax / h)) + 1 if p else 0 for h, p in zip(heights, pbc)]
        shifts = [np.array(s) @ cell for s in itertools.product(*[range(-r, r + 1) for r in reps])]
    shifts = np.array(shifts)
    adj = np.zeros((n, n), dtype=bool)
    margin = np.inf
    for i in range(n):
        for j in range(i + 1, n):
            d = np.linalg.norm(pos[j] - pos[i] + shifts, axis=1).min()
            if isinstance(cutoff, dict):
                c = sym_cut.get((syms[i], syms[j]), sym_cut.get((syms[j], syms[i]), None))
                if c is None:
                    continue
            elif isinstance(cutoff, (list, tuple, np.ndarray)):
                c = cutoff[i] + cutoff[j]
            else:
                c = cutoff
            margin = min(margin, abs(d - c))
            if d < c:
                adj[i, j] = adj[j, i] = True
    return adj, margin


def components(adj):
    n = len(adj)
    parent = list(range(n))

    def find(x):
        while parent[x] != x:
            parent[x] = parent[parent[x]]
            x = parent[x]
        return x

    for i in range(n):
        for j in range(i + 1, n):
            if adj[i, j]:
                parent[find(i)] = find(j)
    roots = [find(i) for i in range(n)]
    return roots


def run_search(spec, rec):
    from ase import Atoms

    from quansino.utils.atoms import search_molecules

    rng = rng_for("C19s", spec["seed"], spec["j"])
    for _ in range(spec["cases"]):
        n = int(rng.integers(1, 41)) if rng.random() > 0.03 else int(rng.integers(1, 3))
        dens = rng.choice(["dilute", "molecular", "dense"])
        L = {"dilute": 14.0, "molecular": 9.0, "dense": 5.0}[str(dens)]
        syms = [SPECIES[int(i)] for i in rng.integers(0, 3, n)]
        cell = np.diag(rng.uniform(0.8 * L, 1.2 * L, 3)) + rng.uniform(-1.5, 1.5, (3, 3)) * (rng.random() < 0.5)
        pos = rng.uniform(0, 1, (n, 3)) @ cell
        if dens == "molecular":  # place partners at bonding distance
            for i in range(1, n):
                if rng.random() < 0.6:
                    v = rng.normal(size=3)
                    pos[i] = pos[i - 1] + v / np.linalg.norm(v) * rng.uniform(0.8, 1.3)
        # fully periodic, not periodic, or periodic along some axes only (slabs, wires)
        pk = rng.random()
        pbc = True if pk < 0.4 else (False if pk < 0.6 else [bool(x) for x in rng.permutation([True, True, False] if rng.random() < 0.5 else [True, False, False])])
        thin = rng.random() < 0.15
        if thin:
            # a cell shorter than the cutoffs along one or two directions: atoms are within the cutoff of their own
            # periodic images (which makes nobody a neighbour of anybody else) and of several images of each other
            n = int(rng.integers(1, 9))
            syms = syms[:n] if len(syms) >= n else [SPECIES[int(i)] for i in rng.integers(0, 3, n)]
            edges = rng.uniform(6.0, 12.0, 3)
            thin_axes = [int(ax) for ax in rng.permutation(3)[: int(rng.integers(1, 3))]]
            for ax in thin_axes:
                edges[ax] = rng.uniform(0.7, 2.0)
            cell = np.diag(edges) + rng.uniform(-0.3, 0.3, (3, 3)) * (rng.random() < 0.4)
            pos = rng.uniform(0, 1, (n, 3)) @ cell
        atoms = Atoms(syms, positions=pos, cell=cell, pbc=pbc)
        pbc = "".join("TF"[not b] for b in atoms.pbc)
        ck = rng.choice(["scalar", "dict", "radii"], p=[0.5, 0.3, 0.2])
        if ck == "scalar":
            cutoff = float(rng.uniform(0.9, 2.4))
        elif ck == "dict":
            present = sorted(set(syms))
            cutoff = {}
            for a in present:
                for b in present:
                    if a <= b and rng.random() < 0.8:
                        cutoff[(a, b)] = float(rng.uniform(0.9, 2.4))
            if not cutoff:
                cutoff[(present[0], present[0])] = 1.5
            if rng.random() < 0.4:
                # species named the other way ASE accepts them: atomic numbers (Python or numpy integers), for all or
                # for some of the keys
                from ase.data import atomic_numbers as _Z

                def _num(sym):
                    z = _Z[sym]
                    return np.int64(z) if rng.random() < 0.5 else int(z)

                cutoff = {((_num(a) if rng.random() < 0.7 else a), (_num(b) if rng.random() < 0.7 else b)): v for (a, b), v in cutoff.items()}
                rec.count("search_dict_keys_by_atomic_number")
        else:
            cutoff = [float(x) for x in rng.uniform(0.4, 1.2, n)]
        fk = rng.choice(["none", "int", "tuple"])
        if fk == "none":
            size = None
        elif fk == "int":
            size = int(rng.integers(1, 5))
        else:
            lo = int(rng.integers(1, 4))
            size = (lo, lo + int(rng.integers(0, 4)))
        dk = rng.choice(["None", "const-1", "const-5", "negarr", "nonnegarr", "zeros"], p=[0.3, 0.1, 0.15, 0.25, 0.1, 0.1])
        if dk == "None":
            default = None
        elif dk == "const-1":
            default = np.full(n, -1)
        elif dk == "const-5":
            default = np.full(n, -5)
        elif dk == "negarr":
            default = -rng.integers(1, 50, n)
        elif dk == "zeros":
            default = np.zeros(n, dtype=int)
        else:
            default = rng.integers(0, 50, n)
        default_in = None if default is None else default.copy()
        adj, margin = pair_matrix(atoms, cutoff)
        if margin < 1e-9:
            rec.count("search_skipped_boundary_tie")
            continue
        rec.evaluations += 1
        wit = {"natoms": n, "pbc": pbc, "cutoff_kind": str(ck), "cutoff": cutoff if ck != "radii" else "per-atom radii", "required_size": size, "default_kind": str(dk), "symbols": "".join(syms)[:60]}
        try:
            got = search_molecules(atoms, cutoff, required_size=size, default_array=default)
        except Exception as ex:  # noqa: BLE001
            rec.viol(f"C19/search/raised/{type(ex).__name__}/default-{'array' if default is not None else 'none'}", f"search_molecules raised {type(ex).__name__}: {ex}", wit)
            continue
        rec.count("search_checked")
        if default is not None:
            rec.count("search_with_default_array")
        got = np.asarray(got)
        roots = components(adj)
        sizes = {r: roots.count(r) for r in set(roots)}
        lo, hi = (0, n) if size is None else ((size, size) if isinstance(size, int) else size)
        admitted = np.array([lo <= sizes[r] <= hi for r in roots])
        if adj.any():
            rec.count("search_bonded")
        if thin and any(atoms.pbc[ax] for ax in thin_axes):
            rec.count("search_cell_shorter_than_cutoff")
            if (~adj.any(axis=1)).any() and size is not None:
                rec.count("search_cell_shorter_than_cutoff_single_atoms_filtered")
        if (~admitted).any():
            rec.count("search_filtered_out")
        psig = tuple(sorted(sizes.values(), reverse=True))[:6]
        if adj.any():
            rec.case("sm", n, pbc, ck, fk, dk, psig)
        if got.shape != (n,):
            rec.viol("C19/search/shape", f"result shape {got.shape} for {n} atoms", wit)
            continue
        dflt = np.full(n, -1) if default_in is None else default_in
        bad_default = [i for i in range(n) if not admitted[i] and got[i] != dflt[i]]
        if bad_default:
            rec.viol("C19/search/default-not-kept", f"atoms outside admitted molecules do not keep the supplied default at {bad_default[:5]}", {**wit, "got": got.tolist()[:40], "default": dflt.tolist()[:40]})
            continue
        adm = [i for i in range(n) if admitted[i]]
        if any(got[i] < 0 for i in adm):
            rec.viol("C19/search/negative-label", "an atom of an admitted molecule has a negative label", {**wit, "got": got.tolist()[:40]})
            continue
        bad = None
        for a, b in itertools.combinations(adm, 2):
            if (got[a] == got[b]) != (roots[a] == roots[b]):
                bad = (a, b)
                break
        if bad:
            a, b = bad
            kind = "split" if roots[a] == roots[b] else "merged"
            rec.viol(f"C19/search/partition-{kind}/{ck}", f"atoms {a},{b} are {'connected' if kind == 'split' else 'not connected'} through within-cutoff neighbours but got labels {got[a]},{got[b]}", {**wit, "got": got.tolist()[:40]})
        if default_in is not None and (default_in >= 0).any():
            rec.count("search_nonneg_default_not_judged")
        rec.sample({**wit, "labels": got.tolist()[:20]}, cap=2)


def run(spec):
    from qv import env

    env.import_quansino()
    rec = Rec(spec["name"])
    {"rexh": run_rexh, "rrand": run_rrand, "search": run_search}[spec["mode"]](spec, rec)
    return rec.out()
