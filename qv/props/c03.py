"""C03 - a rejected or failed trial leaves the system exactly as it was.

Monitor: the trial tracer snapshots the atoms (every per-atom array with dtype and row
order, cell, pbc, constraints) and the label arrays / pending-exchange bookkeeping at
every yield of the real stepping generator; for every trial whose verdict is rejected
(False) or failed (None) the post-trial snapshot must be bitwise equal to the pre-trial
one.  Histories are forced with scripted criteria (accept / reject / alternate / long
reject runs / random) and vetoing geometric checks (always / first k / random) across all
five Monte Carlo ensembles, all moves and their + / * compositions, label arrays with
spectators, gaps and descending order, rich per-atom arrays and constraints.
Pre-selected insertions also use a particle with another number of atoms than the template.
"""
from __future__ import annotations

import traceback

import numpy as np

from qv import workloads
from qv.lib import Rec, diff_snap, install_exchange_counter, rng_for, snap_atoms, trace, vstr, exch_finding_applies, exch_reset
from qv.props.c05 import classify_exception, table_shape

LEVEL = "exploration"
RULE = (
    "one evaluation = one trial of a seeded simulation (ensemble x move table built with + and * x labeling x per-atom arrays x constraints x criteria schedule x veto schedule); "
    "distinct by (ensemble, table shape, verdict, constraint kind, arrays present); non-trivial = trials that were rejected or failed after the move had changed something "
    "(positions, cell, momenta or atom count)"
)
ASSUMPTIONS = [
    "bitwise comparison of every per-atom array (values, dtype, shape, row order, set of arrays), cell, pbc and the constraints' todict()",
    "pending-exchange bookkeeping and one-shot pre-selections are inspected only where the attributes exist (a renamed internal is skipped, not alarmed); leakage is otherwise judged by the following trials",
    "atoms in Hamiltonian workloads carry a momenta array from the start (an implicit zero momenta array becoming explicit is not a change of state)",
]
REQUIRED = {"preselected_insertions_of_another_size": 5, "trials": 4000, "rejected": 1000, "failed": 300, "rejected_exchange_trials": 100, "rejected_cell_trials": 100, "rejected_hamiltonian_trials": 50, "trials_with_constraints": 300, "soft_checks": 500, "preselected_displacements": 50, "preselected_deletions": 10, "preselected_insertions": 10}
SHARD_TIMEOUT = {"quick": 900, "thorough": 3000}
FAMILIES = ["canonical", "hamiltonian", "isobaric", "isotension", "grand", "grand", "canonical", "isobaric"]


def plan(tier, seed):
    n = 16 if tier == "quick" else 48
    return [{"name": f"{FAMILIES[j % len(FAMILIES)]}{j}", "family": FAMILIES[j % len(FAMILIES)], "j": j, "seed": seed, "sims": 30 if tier == "quick" else 60, "steps": 30 if tier == "quick" else 80} for j in range(n)]


def soft_state(mc, moves):
    ctx = mc.context
    out = {}
    for f in ("_added_indices", "_deleted_indices"):
        if hasattr(ctx, f):
            out[f] = len(getattr(ctx, f))
    for f in ("_added_atoms", "_deleted_atoms"):
        if hasattr(ctx, f):
            out[f] = len(getattr(ctx, f))
    if hasattr(ctx, "particle_delta"):
        out["particle_delta"] = int(ctx.particle_delta)
    for name, m in moves:
        for f in ("to_displace_labels", "to_add_atoms", "to_delete_label"):
            if hasattr(m, f):
                v = getattr(m, f)
                out[f"{name}.{f}"] = None if v is None else repr(v)[:40]
    return out


def run_one(rec: Rec, spec, steps, family):
    from qv import sims

    shape = table_shape(spec)
    cons = ",".join(spec["atoms"].get("constraints", [])) or "none"
    wit0 = {"ensemble": family, "table": shape, "constraints": cons, "atoms": spec["atoms"].get("kind"), "extras": spec["atoms"].get("extras"), "seed": spec["seed"], "style": spec["calc"].get("style")}
    try:
        mc, info = sims.build(spec)
    except Exception as ex:  # noqa: BLE001
        rec.viol(f"C03/build-raised/{classify_exception(ex)}", f"building the simulation raised {ex}"[:300], wit0)
        return
    moves, seen = [], set()
    for name, storage in mc.moves.items():
        for m in sims.walk_moves(storage.move):
            if id(m) not in seen:
                seen.add(id(m))
                moves.append((name, m))
    st = {}
    exch_reset()

    def viol(key, what, witness, crashed=False):
        # only a crash after such a trial, or a violation in the very trial in which two exchange moves acted, is
        # attributed to the known finding; everything else keeps its own key
        if (crashed and st.get("two_exchanges")) or st.get("two_exchanges_this_trial"):
            rec.count("symptoms_after_two_exchanges_in_plain_composite")
            key = "C03/two-exchange-moves-succeed-in-one-plain-composite-trial"
            what = "a plain composite (built with +) performed two exchange moves in one trial: " + what
        rec.viol(key, what, witness)

    def snap(m):
        return {"atoms": snap_atoms(m.atoms), "labels": {nm: np.array(mv.labels, copy=True) for nm, mv in moves if hasattr(mv, "labels")}, "soft": soft_state(m, moves), "N": getattr(m.context, "number_of_exchange_particles", None)}

    def on_trial(t):
        rec.count("trials")
        rec.evaluations += 1
        st["two_exchanges_this_trial"] = exch_finding_applies()
        if exch_finding_applies():
            st["two_exchanges"] = True
        exch_reset()
        if cons != "none":
            rec.count("trials_with_constraints")
        if t.verdict is True:
            rec.count("accepted")
            return
        kind = "rejected" if t.verdict is False else "failed"
        rec.count(kind)
        entry = next((e for e in spec["table"] if e["name"] == t.name), None)
        mshape = table_shape({"table": [entry]}) if entry else "?"
        if kind == "rejected":
            if "E" in mshape:
                rec.count("rejected_exchange_trials")
            if "C" in mshape:
                rec.count("rejected_cell_trials")
            if "H" in mshape:
                rec.count("rejected_hamiltonian_trials")
        wit = {**wit0, "step": t.step, "trial": t.k, "move": t.name, "move_shape": mshape, "verdict": kind}
        d = diff_snap(t.before["atoms"], t.after["atoms"])
        if d:
            aspects = []
            for x in d:
                if x.startswith("constraints"):
                    aspects.append("constraints")
                elif x.startswith("natoms"):
                    aspects.append("atom-count")
                elif "positions" in x:
                    aspects.append("positions")
                elif "momenta" in x:
                    aspects.append("momenta")
                elif x.startswith("cell"):
                    aspects.append("cell")
                elif x.startswith("array"):
                    aspects.append("other-array")
                else:
                    aspects.append("other")
            a = sorted(set(aspects))
            main = "constraints" if a == ["constraints"] else ("atom-count" if "atom-count" in a else a[0])
            mk = "exchange" if "E" in mshape else ("cell" if "C" in mshape else ("hamiltonian" if "H" in mshape else "displacement"))
            viol(f"C03/{kind}-trial-changed/{main}/{mk}-move", f"{kind} trial of '{t.name}' ({mshape}) left the atoms changed: {d[:4]}", {**wit, "differences": d[:6]})
        for nm in t.before["labels"]:
            if not np.array_equal(t.before["labels"][nm], t.after["labels"][nm]):
                viol(f"C03/{kind}-trial-changed/labels", f"labels of '{nm}' changed in a {kind} trial", wit)
        if t.before["N"] != t.after["N"]:
            viol(f"C03/{kind}-trial-changed/particle-number", f"recorded particle number changed {t.before['N']}->{t.after['N']}", wit)
        rec.count("soft_checks")
        soft = t.after["soft"]
        leaks = {k: v for k, v in soft.items() if v not in (0, None)}
        if leaks:
            viol(f"C03/{kind}-trial-leaves-pending/{sorted(leaks)[0].split('.')[-1]}", f"bookkeeping of the abandoned trial is still pending afterwards: {leaks}", {**wit, "pending": leaks})
        rec.case(family, shape, kind, cons, ",".join(spec["atoms"].get("extras", [])))
        rec.sample({**wit, "changed": bool(d)}, cap=3)

    pre_rng = np.random.default_rng(spec["seed"] % 2**32)

    def at_yield(m, name):
        """Hostile use of the one-shot pre-selection attributes: now and then pre-select the target of the move that is
        about to run (the documented way to steer a move); whatever the verdict, nothing of it may survive the trial."""
        entry = mc.moves.get(name)
        if entry is None or pre_rng.random() > 0.25:
            return
        mv = entry.move
        labels = getattr(mv, "labels", None)
        if labels is None or hasattr(mv, "moves"):
            return
        nn = np.unique(np.asarray(labels)[np.asarray(labels) >= 0])
        if hasattr(mv, "to_delete_label"):
            if pre_rng.random() < 0.5 and len(nn):
                mv.to_delete_label = int(pre_rng.choice(nn))
                rec.count("preselected_deletions")
            else:
                if pre_rng.random() < 0.5:
                    mv.to_add_atoms = mc.exchange_atoms.copy()
                else:
                    # a second species through the same documented hook: a particle with another number of atoms than
                    # the simulation's exchange template
                    from ase import Atoms as _Atoms

                    mv.to_add_atoms = _Atoms("CO", positions=[[0, 0, 0], [0, 0, 1.1]]) if len(mc.exchange_atoms) == 1 else _Atoms("Ar")
                    rec.count("preselected_insertions_of_another_size")
                rec.count("preselected_insertions")
        elif hasattr(mv, "to_displace_labels") and len(nn):
            mv.to_displace_labels = int(pre_rng.choice(nn))
            rec.count("preselected_displacements")

    try:
        trace(mc, steps, snap=snap, on_trial=on_trial, at_yield=at_yield)
    except Exception as ex:  # noqa: BLE001
        if exch_finding_applies():
            st["two_exchanges"] = True
        viol(f"C03/run-raised/{classify_exception(ex)}", f"simulation raised {type(ex).__name__}: {ex}"[:300], {**wit0, "traceback": traceback.format_exc()[-700:]}, crashed=True)


def run(spec):
    from qv import env

    env.import_quansino()
    install_exchange_counter()
    rec = Rec(spec["name"])
    rng = rng_for("C03", spec["seed"], spec["j"])
    for i in range(spec["sims"]):
        s = workloads.gen(rng, spec["family"], styles=["plain", "keyed"], p_scripted=0.6)
        run_one(rec, s, spec["steps"], spec["family"])
    return rec.out()
