"""C09 - move scheduling honours interval, probability and minimum count.

Workload: seeded random move tables (1-6 bare protocol moves that always report failure,
so scheduling is all that runs), intervals 1-7, weights from {0, tiny, 1, 10, large},
minimum counts with sum <= cycles (also == cycles, and cycles+1 for the guard), cycles
1-12, a few hundred steps per table, in MonteCarlo / Canonical / GrandCanonical drivers.
Monitor: the list of names yielded by each step (the package's public stepping
interface).  Oracles: per-step deterministic predicates, and for the distributional
clause pooled free-slot counts per (table, due-set) against the normalised weights
(binomial z with re-measurement), plus independence of consecutive free picks.
Live re-tuning shards re-assign weights and intervals through the move table's
documented attributes between two run calls and judge the second run against the new table.
Tables also use unusual names (the empty string, '0', 'None', spaces), numpy-typed settings, and weights so small that
they are all 'close' to each other.
Tables are also changed while a step is in progress (weights set to zero in place, through add_move under the existing
name, or by a new entry): no weight-zero move may be chosen from the next slot on.
Some tables carry weights normalised by hand to a few digits (their sum is one only to within 1e-4 .. 1e-8).
Some drivers leave max_cycles at the documented default (one cycle per atom), which is then the configured number.
"""
from __future__ import annotations

import math

import numpy as np

from qv.lib import Rec, derive_seed, rng_for

LEVEL = "exploration"
RULE = (
    "seeded random move tables x step numbers; one evaluation = one step's yielded name list; a case is distinct by "
    "(table signature, due-set) and non-trivial when at least two moves are due or a minimum count / zero weight is in play"
)
ASSUMPTIONS = [
    "the step number a move's interval refers to is the value of step_count when the step starts (0 for the first step), as the driver exposes it",
    "tables whose due moves all have weight zero while free slots remain are outside the quantifier and are not generated",
    "distribution clause decided by binomial z (|z|>5 flagged, re-measured once with 4x the steps and fresh seed; violation only if flagged again with the same sign)",
]
REQUIRED = {"drivers_with_default_cycles": 5, "tables_with_weights_normalised_by_hand": 10, "tables_retuned_live": 12, "tables_changed_in_mid_step": 300, "slots_after_a_change_in_mid_step": 3000, "steps_checked": 2000, "steps_nothing_due": 20, "zero_weight_due_steps": 50, "guard_refusals": 10, "dist_tests_resolved": 20, "min_count_steps": 200}
SHARD_TIMEOUT = {"quick": 600, "thorough": 2400}

WEIGHTS = [0.0, 1e-9, 1.0, 1.0, 10.0, 1e6, 0.3]
COUNTS: dict = {}


class ProbeMove:
    """Bare protocol move: never inherits from the package, always reports failure."""

    def __call__(self, context):
        return False

    def on_atoms_changed(self, added, removed):
        pass

    def on_cell_changed(self, cell):
        pass

    def to_dict(self):
        return {"name": "ProbeMove"}

    @classmethod
    def from_dict(cls, data):
        return cls()


class ProbeCriteria:
    def evaluate(self, context):
        return False

    def to_dict(self):
        return {"name": "ProbeCriteria"}

    @classmethod
    def from_dict(cls, data):
        return cls()


def plan(tier, seed):
    ntab = 320 if tier == "quick" else 6400
    nsh = 16 if tier == "quick" else 32
    specs = [{"name": f"tables{j}", "mode": "tables", "seed": seed, "j": j, "n": ntab // nsh, "steps": 160 if tier == "quick" else 240} for j in range(nsh)]
    for j in range(8 if tier == "quick" else 16):
        specs.append({"name": f"dist{j}", "mode": "dist", "seed": seed, "j": j, "n": 3 if tier == "quick" else 6, "steps": 4000 if tier == "quick" else 20000})
    specs.append({"name": "guard", "mode": "guard", "seed": seed, "n": 300 if tier == "quick" else 3000})
    for j in range(4 if tier == "quick" else 16):
        specs.append({"name": f"retune{j}", "mode": "retune", "seed": seed, "j": j, "n": 4 if tier == "quick" else 8, "steps": 1500 if tier == "quick" else 6000})
    for j in range(2 if tier == "quick" else 8):
        specs.append({"name": f"midstep{j}", "mode": "midstep", "seed": seed, "j": j, "n": 300 if tier == "quick" else 2000})
    return specs


def make_driver(kind, seed, cycles):
    from ase import Atoms

    from quansino.mc.canonical import Canonical
    from quansino.mc.core import MonteCarlo
    from quansino.mc.gcmc import GrandCanonical
    from qv.lib import IdealGas

    atoms = Atoms("Ar2", positions=[[0, 0, 0], [3, 0, 0]], cell=[8, 8, 8], pbc=True)
    atoms.calc = IdealGas()
    if kind == "MonteCarlo":
        return MonteCarlo(atoms, max_cycles=cycles, seed=seed)
    # the configured number of cycles may also be the drivers' documented default, one cycle per atom (two atoms here):
    # left alone for every other seed when that is the number wanted
    ckw = {"max_cycles": cycles}
    if cycles == len(atoms) and seed % 2 == 0:
        ckw = {}
        COUNTS["drivers_with_default_cycles"] = COUNTS.get("drivers_with_default_cycles", 0) + 1
    if kind == "Canonical":
        return Canonical(atoms, temperature=300.0, seed=seed, **ckw)
    return GrandCanonical(atoms, exchange_atoms=Atoms("Ar"), temperature=300.0, seed=seed, **ckw)


def gen_table(rng, cycles=None, allow_zero_only=False):
    cycles = int(rng.integers(1, 13)) if cycles is None else cycles
    nm = int(rng.integers(1, 7))
    table = []
    budget = cycles
    mode = rng.random()
    for i in range(nm):
        interval = int(rng.choice([1, 1, 1, 2, 3, 4, 5, 7]))
        w = float(WEIGHTS[int(rng.integers(len(WEIGHTS)))])
        if mode < 0.35:
            mc_ = 0
        elif mode < 0.5 and i == nm - 1:
            mc_ = budget  # fill all cycles
        else:
            mc_ = int(rng.integers(0, budget + 1)) if rng.random() < 0.5 else 0
        budget -= mc_
        table.append({"name": f"m{i}", "interval": interval, "weight": w, "min": mc_})
    if nm >= 2 and rng.random() < 0.15:
        # weights a user has normalised by hand and typed in with a few digits (0.33333, 0.33333, 0.33333; 0.666667,
        # 0.333333): they sum to one only to within 1e-4 .. 1e-8; all moves due at every step so that the sum is what it is
        digits = int(rng.integers(4, 9))
        p_ = rng.dirichlet(np.ones(nm)) if rng.random() < 0.5 else np.array([1.0 / nm] * nm)
        for t_, w_ in zip(table, p_):
            t_["weight"] = float(round(float(w_), digits))
            t_["interval"] = 1
        if all(t_["weight"] > 0 for t_ in table) and abs(sum(t_["weight"] for t_ in table) - 1.0) > 0:
            COUNTS["tables_with_weights_normalised_by_hand"] = COUNTS.get("tables_with_weights_normalised_by_hand", 0) + 1
    if rng.random() < 0.25:
        # names are arbitrary strings: the empty string, a name that looks like a number, a long one with spaces
        for t_, nm_ in zip(table, rng.permutation(["", "0", "False", "a move with spaces", "None"])):
            t_["name"] = str(nm_)
    return cycles, table


def due_ok(table, cycles, s):
    """Is the step at step_count s inside the quantifier (some positive weight among due, or no free slot)?"""
    due = [t for t in table if s % t["interval"] == 0]
    if not due:
        return True
    free = cycles - sum(t["min"] for t in due)
    return free == 0 or any(t["weight"] > 0 for t in due)


def table_sig(cycles, table):
    return f"c{cycles}:" + ",".join(f"{t['interval']}/{t['weight']:g}/{t['min']}" for t in table)


def run_table(rec: Rec, kind, cycles, table, seed, steps, pool=None, seqs=None, mc=None, keep=None):
    """Run one table; per-step deterministic checks; returns pooled free-slot counts.  With `mc` given, the run is a
    continuation of that live simulation (whose table the caller has re-tuned to `table`)."""
    if mc is None:
        mc = make_driver(kind, seed, cycles)
        for k_, t in enumerate(table):
            # the same numbers as Python numbers or as numpy scalars (a table read from an array)
            npy = (seed + k_) % 3 == 0
            mc.add_move(ProbeMove(), ProbeCriteria(), name=t["name"], interval=np.int64(t["interval"]) if npy else t["interval"], probability=np.float64(t["weight"]) if npy else t["weight"], minimum_count=np.int64(t["min"]) if npy else t["min"])
        s_expected = 0
    else:
        s_expected = int(mc.step_count)
    if keep is not None:
        keep["mc"] = mc
    by = {t["name"]: t for t in table}
    sig = table_sig(cycles, table)
    pool = {} if pool is None else pool
    for step in mc.irun(steps):
        s = mc.step_count
        if s != s_expected:
            rec.viol("C09/step-counter", f"step_count {s} while executing step {s_expected}", {"table": sig})
        s_expected += 1
        names = [str(n) for n in step]
        rec.evaluations += 1
        rec.count("steps_checked")
        due = [t["name"] for t in table if s % t["interval"] == 0]
        wit = {"driver": kind, "table": sig, "seed": seed, "step": s, "yielded": names, "due": due}
        if not due:
            rec.count("steps_nothing_due")
            if names:
                rec.viol("C09/count/nothing-due", f"{len(names)} trials in a step where no move is due", wit)
            continue
        if len(due) >= 2 or any(by[d]["min"] for d in due) or any(by[d]["weight"] == 0 for d in due):
            rec.case(sig, ",".join(due))
        if len(names) != cycles:
            rec.viol("C09/count/cycles", f"step attempted {len(names)} trials, configured cycles {cycles}", wit)
        notdue = [n for n in names if n not in due]
        if notdue:
            rec.viol("C09/not-due", f"moves {sorted(set(notdue))} attempted on a step that is not a multiple of their interval", wit)
            continue
        cnt = {d: names.count(d) for d in due}
        anymin = False
        for d in due:
            if by[d]["min"]:
                anymin = True
            if cnt[d] < by[d]["min"]:
                rec.viol("C09/min-count", f"due move {d} attempted {cnt[d]} < minimum count {by[d]['min']}", wit)
            if by[d]["weight"] == 0:
                rec.count("zero_weight_due_steps")
                if cnt[d] > by[d]["min"]:
                    rec.viol("C09/zero-weight-chosen", f"weight-zero move {d} attempted {cnt[d]} > its minimum count {by[d]['min']}", wit)
        if anymin:
            rec.count("min_count_steps")
        key = tuple(due)
        p = pool.setdefault(key, {"free": {d: 0 for d in due}, "n": 0, "steps": 0})
        for d in due:
            p["free"][d] += max(0, cnt[d] - by[d]["min"])
        p["n"] += cycles - sum(by[d]["min"] for d in due)
        p["steps"] += 1
        if seqs is not None and not anymin and len(names) >= 2:
            seqs.setdefault(key, []).append(names)
        rec.sample(wit, cap=2)
    return pool


def judge_pool(table, pool):
    """-> list of (due, name, z, n, p) flagged; resolved count."""
    by = {t["name"]: t for t in table}
    flagged, resolved = [], 0
    for due, p in pool.items():
        n = p["n"]
        if n <= 0:
            continue
        wsum = sum(by[d]["weight"] for d in due)
        if wsum <= 0:
            continue
        for d in due:
            pr = by[d]["weight"] / wsum
            var = n * pr * (1 - pr)
            if var < 25:
                continue
            resolved += 1
            z = (p["free"][d] - n * pr) / math.sqrt(var)
            if abs(z) > 5:
                flagged.append((due, d, z, n, pr))
    return flagged, resolved


def judge_independence(seqs, table):
    """Chi-square of consecutive free picks against the product of marginals (no forced slots)."""
    from scipy.stats import chi2

    out = []
    by = {t["name"]: t for t in table}
    for due, lists in seqs.items():
        act = [d for d in due if by[d]["weight"] > 0]
        if len(act) < 2:
            continue
        wsum = sum(by[d]["weight"] for d in act)
        pr = np.array([by[d]["weight"] / wsum for d in act])
        idx = {d: i for i, d in enumerate(act)}
        tab = np.zeros((len(act), len(act)))
        for names in lists:
            for a, b in zip(names[:-1], names[1:]):
                if a in idx and b in idx:
                    tab[idx[a], idx[b]] += 1
        n = tab.sum()
        exp = n * np.outer(pr, pr)
        if n < 200 or exp.min() < 10:
            continue
        stat = float(((tab - exp) ** 2 / exp).sum())
        dof = len(act) ** 2 - 1
        out.append((due, stat, float(chi2.sf(stat, dof)), int(n)))
    return out


def run_tables(spec, rec):
    rng = rng_for("C09", spec["seed"], spec["j"])
    kinds = ["MonteCarlo", "MonteCarlo", "Canonical", "GrandCanonical"]
    for i in range(spec["n"]):
        for _ in range(50):
            cycles, table = gen_table(rng, cycles=2 if i % 8 == 6 else None)
            if all(due_ok(table, cycles, s) for s in range(spec["steps"])):
                break
        else:
            continue
        kind = kinds[i % len(kinds)]
        seed = derive_seed("C09", spec["seed"], spec["j"], i)
        try:
            pool = run_table(rec, kind, cycles, table, seed, spec["steps"])
        except Exception as ex:  # noqa: BLE001  a feasible table must be schedulable
            rec.viol(f"C09/raised/{type(ex).__name__}", f"scheduling a feasible table raised {type(ex).__name__}: {ex}", {"driver": kind, "table": table_sig(cycles, table), "seed": seed})
            continue
        flagged, resolved = judge_pool(table, pool)
        rec.count("dist_tests_resolved", resolved)
        remeasure(rec, flagged, kind, cycles, table, seed, spec["steps"])


def remeasure(rec, flagged, kind, cycles, table, seed, steps):
    if not flagged:
        return
    rec.count("escalations", len(flagged))
    pool2 = run_table(Rec("re"), kind, cycles, table, derive_seed("re", seed), steps * 4)
    fl2, _ = judge_pool(table, pool2)
    again = {(f[0], f[1]): f for f in fl2}
    for due, d, z, n, pr in flagged:
        f2 = again.get((due, d))
        if f2 is not None and (f2[2] > 0) == (z > 0):
            rec.viol(
                "C09/distribution",
                f"free slots choose {d} with frequency off its weight share p={pr:.4g}: z={z:.1f} (n={n}), re-measured z={f2[2]:.1f} (n={f2[3]})",
                {"driver": kind, "table": table_sig(cycles, table), "due": list(due), "move": d, "z": [z, f2[2]]},
            )


def run_dist(spec, rec):
    """Few tables, many steps: resolves the proportionality and independence clauses."""
    rng = rng_for("C09d", spec["seed"], spec["j"])
    presets = [
        (5, [{"name": "a", "interval": 1, "weight": 1.0, "min": 0}, {"name": "b", "interval": 1, "weight": 3.0, "min": 0}, {"name": "c", "interval": 2, "weight": 1.0, "min": 0}]),
        (6, [{"name": "a", "interval": 1, "weight": 1.0, "min": 2}, {"name": "b", "interval": 1, "weight": 2.0, "min": 1}, {"name": "z", "interval": 1, "weight": 0.0, "min": 1}]),
        (4, [{"name": "a", "interval": 1, "weight": 0.2, "min": 0}, {"name": "b", "interval": 3, "weight": 0.8, "min": 1}, {"name": "c", "interval": 2, "weight": 0.5, "min": 0}]),
    ]
    for i in range(spec["n"]):
        if i < len(presets) and spec["j"] % 2 == 0:
            cycles, table = presets[i]
        else:
            while True:
                cycles, table = gen_table(rng, cycles=int(rng.integers(3, 9)))
                for t in table:
                    t["weight"] = float(rng.choice([0.0, 0.5, 1.0, 2.0, 5.0]))
                    t["interval"] = int(rng.choice([1, 1, 2, 3]))
                if all(due_ok(table, cycles, s) for s in range(12)) and len(table) >= 2:
                    break
        seed = derive_seed("C09d", spec["seed"], spec["j"], i)
        seqs: dict = {}
        pool = run_table(rec, "MonteCarlo", cycles, table, seed, spec["steps"], seqs=seqs)
        flagged, resolved = judge_pool(table, pool)
        rec.count("dist_tests_resolved", resolved)
        remeasure(rec, flagged, "MonteCarlo", cycles, table, seed, spec["steps"])
        for due, stat, p, n in judge_independence(seqs, table):
            rec.count("independence_tests")
            if p < 1e-6:
                seqs2: dict = {}
                run_table(Rec("re"), "MonteCarlo", cycles, table, derive_seed("re2", seed), spec["steps"] * 4, seqs=seqs2)
                again = {d: (s, pp) for d, s, pp, _ in judge_independence(seqs2, table)}
                if due in again and again[due][1] < 1e-6:
                    rec.viol("C09/independence", f"consecutive free picks are not independent draws from the weights: chi2 p={p:.2g}, re-measured p={again[due][1]:.2g}", {"table": table_sig(cycles, table), "due": list(due), "pairs": n})
                else:
                    rec.count("escalations")


def run_retune(spec, rec):
    """A live simulation whose weights (and, in half of the cases, intervals) are re-assigned between two run calls
    through the move table's documented attributes: the second run is judged against the new table."""
    rng = rng_for("C09r", spec["seed"], spec["j"])
    for i in range(spec["n"]):
        while True:
            cycles, table = gen_table(rng, cycles=int(rng.integers(3, 9)))
            for t in table:
                t["weight"] = float(rng.choice([0.0, 0.5, 1.0, 2.0, 5.0]))
                t["interval"] = int(rng.choice([1, 1, 2, 3]))
            table2 = [dict(t) for t in table]
            for t in table2:
                t["weight"] = float(rng.choice([0.0, 0.5, 1.0, 3.0, 8.0]))
                if i % 2:
                    t["interval"] = int(rng.choice([1, 2, 3]))
            if len(table) >= 2 and all(due_ok(table, cycles, k) for k in range(12)) and all(due_ok(table2, cycles, k) for k in range(12)) and any(a["weight"] != b["weight"] for a, b in zip(table, table2)):
                break
        seed = derive_seed("C09r", spec["seed"], spec["j"], i)
        kind = ["MonteCarlo", "Canonical"][i % 2]
        try:
            keep: dict = {}
            first = int(rng.integers(1, 40))
            run_table(rec, kind, cycles, table, seed, first, keep=keep)
            mc = keep["mc"]
            for t in table2:
                st = mc.moves[t["name"]]
                st.probability = t["weight"]
                st.interval = t["interval"]
            rec.count("tables_retuned_live")
            pool = run_table(rec, kind, cycles, table2, seed, spec["steps"], mc=mc)
        except Exception as ex:  # noqa: BLE001
            rec.viol(f"C09/raised/{type(ex).__name__}", f"scheduling a feasible (re-tuned) table raised {type(ex).__name__}: {ex}", {"driver": kind, "table": table_sig(cycles, table), "retuned_to": table_sig(cycles, table2), "seed": seed})
            continue
        flagged, resolved = judge_pool(table2, pool)
        rec.count("dist_tests_resolved", resolved)
        if flagged:
            # re-measure on a fresh simulation taken through the same re-tuning
            rec.count("escalations", len(flagged))
            keep2: dict = {}
            run_table(Rec("re"), kind, cycles, table, derive_seed("re", seed), first, keep=keep2)
            for t in table2:
                keep2["mc"].moves[t["name"]].probability = t["weight"]
                keep2["mc"].moves[t["name"]].interval = t["interval"]
            pool2 = run_table(Rec("re"), kind, cycles, table2, seed, spec["steps"] * 4, mc=keep2["mc"])
            again = {(f[0], f[1]): f for f in judge_pool(table2, pool2)[0]}
            for due, d, z, n, pr in flagged:
                f2 = again.get((due, d))
                if f2 is not None and (f2[2] > 0) == (z > 0):
                    rec.viol("C09/distribution/after-retuning", f"after the weights were re-assigned on the live simulation, free slots choose {d} with frequency off its new weight share p={pr:.4g}: z={z:.1f} (n={n}), re-measured z={f2[2]:.1f}", {"driver": kind, "table": table_sig(cycles, table), "retuned_to": table_sig(cycles, table2), "due": list(due), "move": d})


def run_midstep(spec, rec):
    """The table is changed while a step is in progress (between two moves the step generator hands out - the documented
    "dynamic change in the probability of moves between moves"): one move's weight goes to zero, or every weight but
    one does, by an in-place edit of the entry, by add_move under the existing name, or by putting a new entry into the
    table.  Exact oracle: from the next slot on no weight-zero move is chosen (there are no minimum counts)."""
    from quansino.utils.moves import MoveStorage

    rng = rng_for("C09ms", spec["seed"], spec["j"])
    for i in range(spec["n"]):
        cycles = int(rng.integers(3, 17))
        names = [f"m{k}" for k in range(int(rng.integers(2, 6)))]
        if rng.random() < 0.2:
            names = [str(x) for x in rng.permutation(["", "0", "False", "a move with spaces", "None"])[: len(names)]]
        weights = {nm: float(rng.choice([0.5, 1.0, 2.0, 5.0])) for nm in names}
        seed = derive_seed("C09ms", spec["seed"], spec["j"], i)
        kind = ["MonteCarlo", "Canonical", "GrandCanonical"][i % 3]
        how = ["in-place", "add_move", "new-entry"][int(rng.integers(0, 3))]
        what = ["one-to-zero", "all-but-one-to-zero"][int(rng.integers(0, 2))]
        target = names[int(rng.integers(len(names)))]
        zeroed = [target] if what == "one-to-zero" else [nm for nm in names if nm != target]
        at_step, at_slot = int(rng.integers(0, 3)), int(rng.integers(0, cycles - 1))
        wit = {"driver": kind, "cycles": cycles, "weights": weights, "changed": how, "what": what, "set_to_zero": zeroed, "at_step": at_step, "after_slot": at_slot, "seed": seed}
        rec.evaluations += 1
        rec.case("midstep", kind, how, what, len(names))
        try:
            mc = make_driver(kind, seed, cycles)
            for nm in names:
                mc.add_move(ProbeMove(), ProbeCriteria(), name=nm, interval=1, probability=weights[nm], minimum_count=0)
            changed = False
            for s, step in enumerate(mc.irun(at_step + 3)):
                got = []
                for k, nm in enumerate(step):
                    got.append(str(nm))
                    if changed and str(nm) in zeroed:
                        rec.viol(f"C09/zero-weight-chosen/after-change-in-mid-step/{how}", f"move {str(nm)!r} was chosen for a free slot (step {s}, slot {k}) after its weight had been set to zero in mid-step ({how})", {**wit, "step": s, "slot": k})
                    if changed:
                        rec.count("slots_after_a_change_in_mid_step")
                    if s == at_step and k == at_slot:
                        for z in zeroed:
                            if how == "in-place":
                                mc.moves[z].probability = 0.0
                            elif how == "add_move":
                                mc.add_move(ProbeMove(), ProbeCriteria(), name=z, interval=1, probability=0.0, minimum_count=0)
                            else:
                                mc.moves[z] = MoveStorage(move=ProbeMove(), criteria=ProbeCriteria(), interval=1, probability=0.0, minimum_count=0)
                        changed = True
                        rec.count("tables_changed_in_mid_step")
                if len(got) != cycles:
                    rec.viol("C09/count/cycles", f"step attempted {len(got)} trials, configured cycles {cycles} (table changed in mid-step)", {**wit, "step": s})
        except Exception as ex:  # noqa: BLE001
            rec.viol(f"C09/raised/{type(ex).__name__}", f"changing a table in mid-step raised {type(ex).__name__}: {ex}", wit)
        rec.sample(wit, cap=2)


def run_guard(spec, rec):
    rng = rng_for("C09g", spec["seed"])
    for i in range(spec["n"]):
        cycles = int(rng.integers(1, 13))
        mc = make_driver("MonteCarlo", derive_seed("g", i), cycles)
        used = 0
        rec.evaluations += 1
        for j in range(int(rng.integers(1, 6))):
            want = int(rng.integers(0, cycles + 2))
            feasible = used + want <= cycles
            try:
                mc.add_move(ProbeMove(), ProbeCriteria(), name=f"m{j}", interval=int(rng.integers(1, 5)), probability=1.0, minimum_count=want)
                ok = True
            except ValueError:
                ok = False
            wit = {"cycles": cycles, "already_committed": used, "new_minimum_count": want}
            rec.case("guard", cycles, used, want)
            if ok and not feasible:
                rec.viol("C09/guard-accepts-overcommit", f"add_move accepted minimum counts {used}+{want} > cycles {cycles}", wit)
            if not ok and feasible:
                rec.viol("C09/guard-refuses-feasible", f"add_move refused minimum counts {used}+{want} <= cycles {cycles}", wit)
            if not ok:
                rec.count("guard_refusals")
                if f"m{j}" in mc.moves:
                    rec.viol("C09/guard-refused-but-added", "refused move is nevertheless in the table", wit)
            else:
                rec.count("guard_accepts")
                used += want
            rec.sample(wit, cap=2)
        # a table filled exactly to the brim still runs and honours every minimum count
        if used == cycles and mc.moves:
            for step in mc.irun(1):  # step 0: every move is due
                names = [str(n) for n in step]
                if len(names) != cycles:
                    rec.viol("C09/count/cycles", f"full table attempted {len(names)} of {cycles}", {"cycles": cycles})


def run(spec):
    from qv import env

    env.import_quansino()
    rec = Rec(spec["name"])
    {"tables": run_tables, "dist": run_dist, "guard": run_guard, "retune": run_retune, "midstep": run_midstep}[spec["mode"]](spec, rec)
    for k_, v_ in COUNTS.items():
        rec.count(k_, v_)
    return rec.out()
