"""C17 - `+` and `*` on moves and operations are faithful and order preserving.

Workload: every expression tree over seven kinds of elementary moves (two displacement
moves, two exchange moves, a cell move, a Hamiltonian move, a generic BaseMove subclass)
and over operations, built from `+`, `* n`, `n *` with every parenthesisation, up to a
bounded size.  Oracle: a small reference evaluator (flatten + classify) compared, node by
node, with what the real classes built (element identity by `id`, exact result type).
Plain composites of probe moves are *called* and the call log is compared as well.
Probe elements also return values that are truthy / falsy without being bool (None, 0,
2, '', numpy bools, lists).
The leaves include user subclasses of the shipped displacement and exchange moves (which are of those kinds).
Operation expressions also contain a protocol-only operation (inherits nothing) wherever Python can dispatch the
arithmetic (to the right of a +).
"""
from __future__ import annotations

import itertools

import numpy as np

from qv.lib import Rec, rng_for

PACKAGE_RAISE_IS_VIOLATION = True  # every shard input is built inside the statement's domain (see qv/shard.py)
LEVEL = "exploration"
EXHAUSTIVE = True
RULE = (
    "expression trees over {D1,D2,E1,E2,Cell,Hamiltonian,Generic} moves and over operations, "
    "all binary shapes with <= L leaves (quick L=3 exhaustive + sampled L=4,5; thorough L=4 exhaustive "
    "+ sampled L=5,6), at most one `*n` node (n in 1..3, both operand orders for leaves) exhaustively and "
    "several `*n` nodes in the sampled part; a case is distinct by (shape, leaf kinds, multiplier placement) and "
    "non-trivial when it has >= 2 leaves or a multiplier; calls of plain composites over all truth patterns"
)
ASSUMPTIONS = [
    "an element 'of one displacement kind' = exact class DisplacementMove; 'one exchange kind' = exact class ExchangeMove",
    "int * composite (reflected multiplication of an already composite object) is not part of the statement and is not judged",
    "bool multipliers are ints in Python and are not judged",
]
REQUIRED = {"op_expressions_with_a_protocol_only_operation": 500, "calls_with_non_bool_results": 100, "nodes_checked": 1000, "calls_checked": 50, "bad_multipliers_refused": 10, "op_nodes_checked": 200}
SHARD_TIMEOUT = {"quick": 600, "thorough": 1800}

KINDS = ["D1", "D2", "E1", "E2", "C", "H", "G", "Ds", "Es"]


def plan(tier, seed):
    specs = []
    L = 3 if tier == "quick" else 4
    for i, k in enumerate(KINDS):
        specs.append({"name": f"moves-exh-first{k}", "mode": "exh", "first": i, "L": L, "seed": seed})
    nsamp = 3000 if tier == "quick" else 100000
    for j in range(4 if tier == "quick" else 16):
        specs.append({"name": f"moves-rand{j}", "mode": "rand", "n": nsamp, "Lmax": L + 2, "seed": seed, "j": j})
    specs.append({"name": "calls", "mode": "calls", "seed": seed, "n": 6 if tier == "quick" else 8})
    specs.append({"name": "multipliers", "mode": "mult", "seed": seed})
    specs.append({"name": "operations", "mode": "ops", "seed": seed, "L": L, "n": nsamp})
    return specs


# ----------------------------------------------------------------------------- trees
def shapes(n):
    """All binary tree shapes with n leaves as nested tuples of None."""
    if n == 1:
        return [None]
    out = []
    for k in range(1, n):
        for a in shapes(k):
            for b in shapes(n - k):
                out.append((a, b))
    return out


def nodes_of(shape, path=()):
    yield path
    if shape is not None:
        yield from nodes_of(shape[0], path + (0,))
        yield from nodes_of(shape[1], path + (1,))


def build(shape, leaves, mul, path=()):
    """-> expression tuple: ('leaf', kind) | ('add', a, b) | ('mul', a, n, reflected)"""
    if shape is None:
        e = ("leaf", next(leaves))
    else:
        a = build(shape[0], leaves, mul, path + (0,))
        b = build(shape[1], leaves, mul, path + (1,))
        e = ("add", a, b)
    if path in mul:
        n, refl = mul[path]
        e = ("mul", e, n, refl)
    return e


def show(e):
    if e[0] == "leaf":
        return e[1]
    if e[0] == "add":
        return f"({show(e[1])}+{show(e[2])})"
    return f"{e[2]}*{show(e[1])}" if e[3] else f"{show(e[1])}*{e[2]}"


# ----------------------------------------------------------------------------- real objects
def make_leaves():
    from quansino.moves.cell import CellMove
    from quansino.moves.core import BaseMove
    from quansino.moves.displacement import DisplacementMove, HamiltonianDisplacementMove
    from quansino.moves.exchange import ExchangeMove
    from quansino.operations.displacement import Ball

    class Generic(BaseMove):
        def __init__(self):
            super().__init__(Ball(0.1))

        def __call__(self, context):
            return True

    class MyDisplacement(DisplacementMove):  # a user's own flavour of a displacement move: still of the displacement kind
        pass

    class MyExchange(ExchangeMove):
        pass

    return {
        "Ds": MyDisplacement([0, 1]),
        "Es": MyExchange([0, 1]),
        "D1": DisplacementMove([0, 1]),
        "D2": DisplacementMove([0, 1]),
        "E1": ExchangeMove([0, 1]),
        "E2": ExchangeMove([0, 1]),
        "C": CellMove(),
        "H": HamiltonianDisplacementMove(),
        "G": Generic(),
    }


def expected_type(elems):
    from quansino.moves.composite import CompositeMove
    from quansino.moves.displacement import CompositeDisplacementMove, DisplacementMove
    from quansino.moves.exchange import CompositeExchangeMove, ExchangeMove

    # "of one displacement kind" / "of one exchange kind": the shipped classes and the user's subclasses of them
    # (an exchange move is-a displacement move in the class tree, but is of the exchange kind)
    if all(isinstance(m, ExchangeMove) for m in elems):
        return CompositeExchangeMove
    if all(isinstance(m, DisplacementMove) and not isinstance(m, ExchangeMove) for m in elems):
        return CompositeDisplacementMove
    return CompositeMove


class Eval:
    """Evaluates an expression with the real classes and with the reference semantics,
    node by node; reports the innermost node at which they disagree."""

    def __init__(self, rec: Rec, leaves: dict, domain: str):
        self.rec = rec
        self.leaves = leaves
        self.domain = domain

    def elems(self, obj):
        if self.domain == "moves":
            from quansino.moves.composite import CompositeMove

            return list(obj.moves) if isinstance(obj, CompositeMove) else [obj]
        from quansino.operations.composite import CompositeOperation

        return list(obj.operations) if isinstance(obj, CompositeOperation) else [obj]

    def want_type(self, elems):
        if self.domain == "moves":
            return expected_type(elems)
        from quansino.operations.composite import CompositeOperation

        return CompositeOperation

    def run(self, e, top):
        """-> (real object or None, expected element list).  None = already reported."""
        if e[0] == "leaf":
            o = self.leaves[e[1]]
            return o, [o]
        if e[0] == "add":
            a, ea = self.run(e[1], top)
            b, eb = self.run(e[2], top)
            exp = ea + eb
            if a is None or b is None:
                return None, exp
            sig = f"add:{type(a).__name__}+{type(b).__name__}"
            before = (list(self.elems(a)), list(self.elems(b)))
            try:
                r = a + b
            except Exception as ex:  # noqa: BLE001
                self.rec.viol(f"C17/{self.domain}/raised/{sig}", f"{show(e)} raised {type(ex).__name__}: {ex}", {"expr": show(top), "node": show(e)})
                return None, exp
        else:
            a, ea = self.run(e[1], top)
            n, refl = e[2], e[3]
            exp = ea * n
            if a is None:
                return None, exp
            sig = f"{'rmul' if refl else 'mul'}:{type(a).__name__}*{n}"
            before = (list(self.elems(a)), [])
            try:
                r = (n * a) if refl else (a * n)
            except Exception as ex:  # noqa: BLE001
                self.rec.viol(f"C17/{self.domain}/raised/{sig.rsplit('*', 1)[0]}", f"{show(e)} raised {type(ex).__name__}: {ex}", {"expr": show(top), "node": show(e)})
                return None, exp
        self.rec.count("nodes_checked" if self.domain == "moves" else "op_nodes_checked")
        got = self.elems(r)
        sigkey = sig.rsplit("*", 1)[0] if e[0] == "mul" else sig
        # the operands themselves must still contain exactly what they contained (an expression may use them again)
        after = (list(self.elems(a)), list(self.elems(b)) if e[0] == "add" else [])
        for side, (x, y) in enumerate(zip(before, after)):
            if len(x) != len(y) or any(p is not q for p, q in zip(x, y)):
                self.rec.viol(
                    f"C17/{self.domain}/operand-mutated/{sigkey}",
                    f"{show(e)}: the {'left' if side == 0 else 'right'} operand was changed by the operation ({len(x)} -> {len(y)} elements)",
                    {"expr": show(top), "node": show(e)},
                )
                return None, exp
        if len(got) != len(exp) or any(x is not y for x, y in zip(got, exp)):
            self.rec.viol(
                f"C17/{self.domain}/elements/{sigkey}",
                f"{show(e)}: elements differ from the in-order leaf list",
                {"expr": show(top), "node": show(e), "got": [self.name(x) for x in got], "expected": [self.name(x) for x in exp]},
            )
            return None, exp
        wt = self.want_type(exp)
        if type(r) is not wt:
            self.rec.viol(
                f"C17/{self.domain}/type/{sigkey}->{type(r).__name__}",
                f"{show(e)} is a {type(r).__name__}, expected {wt.__name__}",
                {"expr": show(top), "node": show(e), "leaves": [self.name(x) for x in exp]},
            )
            return None, exp
        return r, exp

    def name(self, o):
        for k, v in self.leaves.items():
            if v is o:
                return k
        return type(o).__name__


def check_expr(ev: Eval, rec: Rec, e, nleaves, has_mul):
    rec.evaluations += 1
    ev.run(e, e)
    if nleaves >= 2 or has_mul:
        rec.case(show(e))
    rec.sample(show(e), cap=4)


def run_exh(spec, rec):
    leaves = make_leaves()
    ev = Eval(rec, leaves, "moves")
    first = KINDS[spec["first"]]
    for L in range(1, spec["L"] + 1):
        for shape in shapes(L):
            nodes = list(nodes_of(shape))
            muls = [{}]
            for p in nodes:
                for n in (1, 2, 3):
                    muls.append({p: (n, False)})
                    # reflected multiplication is defined for elementary moves only
                    sub = shape
                    for step in p:
                        sub = sub[step]
                    if sub is None:
                        muls.append({p: (n, True)})
            for rest in itertools.product(KINDS, repeat=L - 1):
                kinds = (first, *rest)
                for mul in muls:
                    e = build(shape, iter(kinds), mul)
                    check_expr(ev, rec, e, L, bool(mul))


def run_rand(spec, rec):
    leaves = make_leaves()
    ev = Eval(rec, leaves, "moves")
    rng = rng_for("C17", spec["seed"], spec["j"])
    for _ in range(spec["n"]):
        L = int(rng.integers(2, spec["Lmax"] + 1))
        sh = shapes(L)
        shape = sh[int(rng.integers(len(sh)))]
        nodes = list(nodes_of(shape))
        mul = {}
        for p in nodes:
            if rng.random() < 0.3:
                sub = shape
                for step in p:
                    sub = sub[step]
                mul[p] = (int(rng.integers(1, 4)), bool(sub is None and rng.random() < 0.5))
        # bias towards homogeneous leaf kinds so specialised composites are frequent
        mode = rng.random()
        if mode < 0.35:
            pool = ["D1", "D2"]
        elif mode < 0.6:
            pool = ["E1", "E2"]
        elif mode < 0.75:
            pool = ["D1", "D2", "E1"]
        else:
            pool = KINDS
        kinds = [pool[int(rng.integers(len(pool)))] for _ in range(L)]
        e = build(shape, iter(kinds), mul)
        check_expr(ev, rec, e, L, bool(mul))


def run_calls(spec, rec):
    """Call plain composites of probe moves: each element once, in order; result = any()."""
    from quansino.moves.composite import CompositeMove
    from quansino.moves.core import BaseMove
    from quansino.operations.displacement import Ball

    log = []

    class Probe(BaseMove):
        def __init__(self, tag, truth):
            super().__init__(Ball(0.1))
            self.tag, self.truth = tag, truth

        def __call__(self, context):
            log.append(self.tag)
            return self.truth

    for n in range(1, spec["n"] + 1):
        for bits in itertools.product([False, True], repeat=n):
            probes = [Probe(i, b) for i, b in enumerate(bits)]
            # build with + in left and right nested forms, and by constructor
            forms = {"ctor": CompositeMove(list(probes))}
            if n >= 2:
                left = probes[0] + probes[1]
                for p in probes[2:]:
                    left = left + p
                forms["left"] = left
                right = probes[-2] + probes[-1]
                for p in reversed(probes[:-2]):
                    right = p + right
                forms["right"] = right
            for fname, comp in forms.items():
                if type(comp) is not CompositeMove:
                    continue  # judged by the expression shards
                log.clear()
                res = comp(object())
                rec.evaluations += 1
                rec.count("calls_checked")
                rec.case("call", n, bits, fname)
                if log != list(range(n)):
                    rec.viol("C17/moves/call-order", f"plain composite of {n} probes called elements {log}", {"bits": bits, "form": fname, "log": list(log)})
                if bool(res) != any(bits):
                    rec.viol("C17/moves/call-result", f"plain composite returned {res!r} for element results {bits}", {"bits": bits, "form": fname})
    # element results that are truthy / falsy without being bool (a user move without a return statement gives None):
    # every element is still called once, in order, and the composite succeeds exactly when some element's result is truthy
    import numpy as _np

    pool = [None, 0, 1, 2, "", "moved", 0.0, 2.5, _np.False_, _np.True_, [], [0], False, True]
    r = rng_for("C17calls", spec["seed"])
    for k in range(400):
        n = int(r.integers(1, 6))
        vals = [pool[int(i)] for i in r.integers(0, len(pool), n)]
        probes = [Probe(i, v) for i, v in enumerate(vals)]
        comp = CompositeMove(list(probes)) if k % 2 == 0 or n < 2 else None
        if comp is None:
            comp = probes[0] + probes[1]
            for q in probes[2:]:
                comp = comp + q
        if type(comp) is not CompositeMove:
            continue
        log.clear()
        rec.evaluations += 1
        rec.count("calls_checked")
        rec.count("calls_with_non_bool_results")
        wit = {"element_results": [repr(v) for v in vals]}
        try:
            res = comp(object())
        except Exception as ex:  # noqa: BLE001
            rec.viol(f"C17/moves/call-raised/{type(ex).__name__}", f"plain composite raised {type(ex).__name__}: {ex} for element results {wit['element_results']} (elements called before: {log})", wit)
            continue
        if log != list(range(n)):
            rec.viol("C17/moves/call-order", f"plain composite of {n} probes called elements {log}", {**wit, "log": list(log)})
        if bool(res) != any(bool(v) for v in vals):
            rec.viol("C17/moves/call-result", f"plain composite returned {res!r} for element results {wit['element_results']}", wit)
    # repeated element: a*3 over a probe calls it three times
    p = Probe("x", True)
    comp = p * 3
    log.clear()
    comp(object())
    rec.count("calls_checked")
    if log != ["x"] * 3:
        rec.viol("C17/moves/call-order", f"probe*3 called elements {log}", {"log": list(log)})
    rec.sample({"probe_truths": [False, True, False], "expected_calls": [0, 1, 2], "expected_result": True})


def run_mult(spec, rec):
    """Non-positive / non-integer multipliers must be refused (any exception)."""
    from quansino.operations.cell import IsotropicDeformation
    from quansino.operations.displacement import Ball, Box

    leaves = make_leaves()
    targets = dict(leaves)
    targets["D1+D2"] = leaves["D1"] + leaves["D2"]
    targets["E1+E2"] = leaves["E1"] + leaves["E2"]
    targets["D1+C"] = leaves["D1"] + leaves["C"]
    targets["op:Ball"] = Ball(0.1)
    targets["op:Ball+Box"] = Ball(0.1) + Box(0.1)
    targets["op:Iso"] = IsotropicDeformation(0.1)
    bad = [0, -1, -3, 2.5, 1.0, "2", None, [2], np.float64(2.0)]
    for tname, t in targets.items():
        for b in bad:
            rec.evaluations += 1
            rec.case("mult", tname, repr(b))
            for refl in (False, True):
                if refl and ("+" in tname):
                    continue
                try:
                    r = (b * t) if refl else (t * b)
                except Exception:  # noqa: BLE001
                    rec.count("bad_multipliers_refused")
                    continue
                if refl and isinstance(b, (list, str)) and not hasattr(r, "moves") and not hasattr(r, "operations"):
                    rec.count("bad_multipliers_refused")
                    continue
                rec.viol(
                    f"C17/multiplier-accepted/{type(t).__name__}/{type(b).__name__}",
                    f"{tname} {'r' if refl else ''}* {b!r} was accepted and gave {type(r).__name__}",
                    {"target": tname, "multiplier": repr(b)},
                )
        for good in (1, 2, 5):
            r = t * good
            n = len(getattr(r, "moves", getattr(r, "operations", [])))
            base = len(getattr(t, "moves", getattr(t, "operations", [t])))
            rec.count("good_multipliers")
            if n != base * good:
                rec.viol(f"C17/multiplier-count/{type(t).__name__}", f"{tname}*{good} has {n} elements", {"target": tname})
    rec.sample({"target": "D1", "bad_multipliers": [repr(b) for b in bad]})


def run_ops(spec, rec):
    from quansino.operations.cell import AnisotropicDeformation, IsotropicDeformation
    from quansino.operations.displacement import Ball, Box, Rotation, Sphere, Translation

    leaves = {
        "Ball": Ball(0.1),
        "Box": Box(0.2),
        "Sphere": Sphere(0.3),
        "Trans": Translation(),
        "Rot": Rotation(),
        "Iso": IsotropicDeformation(0.05),
        "Aniso": AnisotropicDeformation(0.05),
    }
    class BareOperation:
        """A user's operation that satisfies the Operation protocol without inheriting from anything."""

        def calculate(self, context):
            return np.zeros((1, 3))

        def to_dict(self):
            return {"name": "BareOperation"}

        @classmethod
        def from_dict(cls, data):
            return cls()

    leaves["Bare"] = BareOperation()

    def in_domain(e):
        # a protocol-only operation defines no arithmetic of its own: it can only stand to the right of a +
        if e[0] == "leaf":
            return True
        if e[0] == "add":
            return e[1] != ("leaf", "Bare") and in_domain(e[1]) and in_domain(e[2])
        return e[1] != ("leaf", "Bare") and in_domain(e[1])

    ev = Eval(rec, leaves, "ops")
    kinds = list(leaves)
    for L in range(1, spec["L"] + 1):
        for shape in shapes(L):
            nodes = list(nodes_of(shape))
            muls = [{}]
            for p in nodes:
                for n in (1, 2, 3):
                    muls.append({p: (n, False)})
                    muls.append({p: (n, True)})
            combos = itertools.product([*kinds[:3], "Bare"] if L == 4 else kinds, repeat=L)
            for ks in combos:
                for mul in muls:
                    e = build(shape, iter(ks), mul)
                    if not in_domain(e):
                        continue
                    if "Bare" in ks:
                        rec.count("op_expressions_with_a_protocol_only_operation")
                    check_expr(ev, rec, e, L, bool(mul))


def run(spec):
    from qv import env

    env.import_quansino()
    rec = Rec(spec["name"])
    {"exh": run_exh, "rand": run_rand, "calls": run_calls, "mult": run_mult, "ops": run_ops}[spec["mode"]](spec, rec)
    return rec.out()
