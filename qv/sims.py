"""Deterministic construction of simulations from JSON-able specs (shared by C03-C07, C12,
C15, C16, C20): every driver, every shipped move / operation / integrator, composites
built with + and *, atomic and molecular exchange species, rich per-atom arrays,
constraints, three calculator styles and scripted criteria / vetoes."""
from __future__ import annotations

import hashlib

import numpy as np

from qv.lib import Harmonic, IdealGas, Prescribed, SoftPair, derive_seed, digest_atoms, rng_for

# ----------------------------------------------------------------------------- scripted protocol objects
class ScriptedCriteria:
    """Bare protocol criteria (inherits nothing from the package) following a schedule.

    schedule: 'accept' | 'reject' | 'alternate' | 'runs' (long reject runs) | 'random:p'
    Draws nothing from the simulation's generator (own counter-based hash)."""

    def __init__(self, schedule="alternate", salt=0):
        self.schedule, self.salt, self.k = schedule, salt, 0
        self.calls = 0

    # the protocol says "bool"; other truthy / falsy values (0/1, numpy booleans, None) must be routed the same way
    TRUTHY = (True, 1, np.True_)
    FALSY = (False, 0, np.False_, None)

    def evaluate(self, context):
        k = self.k
        ok = self.decide(k)
        pool = self.TRUTHY if ok else self.FALSY
        return pool[(k + self.salt) % len(pool)]

    def decide(self, k):
        self.k += 1
        self.calls += 1
        s = self.schedule
        if s == "accept":
            return True
        if s == "reject":
            return False
        if s == "alternate":
            return k % 2 == 0
        if s == "runs":
            return (k // 7) % 3 == 0
        p = float(s.split(":")[1])
        h = hashlib.sha256(f"{self.salt}/{k}".encode()).digest()
        return int.from_bytes(h[:8], "little") / 2**64 < p

    def to_dict(self):
        return {"name": "ScriptedCriteria", "kwargs": {"schedule": self.schedule, "salt": self.salt}, "attributes": {"k": self.k}}

    @classmethod
    def from_dict(cls, data):
        o = cls(**data.get("kwargs", {}))
        for k, v in data.get("attributes", {}).items():
            setattr(o, k, v)
        return o


class Veto:
    """check_move callable: 'always' | 'first:k' | 'random:p' (own hash, no simulation RNG)."""

    def __init__(self, mode, salt=0):
        self.mode, self.salt, self.k = mode, salt, 0

    def __call__(self, context):
        k = self.k
        self.k += 1
        if self.mode == "always":
            return False
        if self.mode.startswith("first:"):
            n = int(self.mode.split(":")[1])
            return (k % (n + 1)) == n
        p = float(self.mode.split(":")[1])
        h = hashlib.sha256(f"v{self.salt}/{k}".encode()).digest()
        return int.from_bytes(h[:8], "little") / 2**64 >= p


class BareMove:
    """Bare protocol move (inherits nothing): shifts one atom by a vector drawn from the context's generator."""

    def __init__(self, step=0.2, result=True):
        self.step, self.result = step, result
        self.calls = 0
        self.atoms_changed: list = []
        self.cell_changed: list = []

    def __call__(self, context):
        self.calls += 1
        atoms = context.atoms
        if len(atoms):
            i = int(context.rng.integers(len(atoms)))
            atoms.positions[i] += context.rng.uniform(-self.step, self.step, 3)
        return self.result

    def on_atoms_changed(self, added_indices, removed_indices):
        self.atoms_changed.append((list(map(int, added_indices)), list(map(int, removed_indices))))

    def on_cell_changed(self, new_cell):
        self.cell_changed.append(np.array(new_cell))

    def to_dict(self):
        return {"name": "BareMove", "kwargs": {"step": self.step, "result": self.result}}

    @classmethod
    def from_dict(cls, data):
        return cls(**data.get("kwargs", {}))


def register_scripted():
    from quansino.registry import register_class

    register_class(ScriptedCriteria, "ScriptedCriteria")
    register_class(BareMove, "BareMove")


# ----------------------------------------------------------------------------- atoms
def build_atoms(a: dict):
    """a: {kind, n, seed, species, cell, pbc, extras:[...], constraints:[...], nmol, molsize}"""
    from ase import Atoms
    from ase.constraints import FixAtoms, FixCom

    rng = rng_for("atoms", a.get("seed", 0), a.get("kind"), a.get("n"))
    n = a.get("n", 4)
    edge = a.get("edge", 8.0)
    cell = np.eye(3) * edge
    if a.get("triclinic"):
        cell = cell + np.tril(rng.uniform(-0.25, 0.25, (3, 3)), -1) * edge
    pbc = a.get("pbc", True)
    kind = a.get("kind", "gas")
    labels = None
    if kind == "gas":
        syms = [a.get("species", "Ar")] * n
        pos = rng.uniform(0.05, 0.95, (n, 3)) @ cell
        labels = np.arange(n)
    elif kind == "mixed":
        pool = a.get("pool", ["Cu", "Ar", "H", "O"])
        syms = [pool[int(i)] for i in rng.integers(0, len(pool), n)]
        pos = rng.uniform(0.05, 0.95, (n, 3)) @ cell
        labels = np.arange(n)
    elif kind == "molecules":
        ms = a.get("molsize", 2)
        nmol = a.get("nmol", 2)
        nfw = a.get("framework", 0)
        syms, pos, labels = [], [], []
        def add_framework():
            for f in range(nfw):
                syms.append("Cu")
                pos.append(rng.uniform(0.05, 0.95, 3) @ cell)
                labels.append(-1)

        if not a.get("fw_last"):
            add_framework()
        tmpl = molecule_template(ms)
        for m in range(nmol):
            c = rng.uniform(0.15, 0.85, 3) @ cell
            for s, p in zip(tmpl.get_chemical_symbols(), tmpl.positions):
                syms.append(s)
                pos.append(c + p)
                labels.append(m)
        if a.get("fw_last"):
            add_framework()
        labels = np.array(labels)
        pos = np.array(pos)
        n = len(syms)
    else:
        raise ValueError(kind)
    atoms = Atoms(syms, positions=np.asarray(pos), cell=cell, pbc=pbc)
    n = len(atoms)
    if a.get("spectators_last"):
        labels = np.array(labels)
        labels[-int(a["spectators_last"]) :] = -1
    for ex in a.get("extras", []):
        if ex == "tags":
            atoms.set_tags(rng.integers(0, 4, n))
        elif ex == "momenta":
            atoms.set_momenta(rng.normal(size=(n, 3)))
        elif ex == "charges":
            atoms.set_initial_charges(rng.normal(size=n))
        elif ex == "masses":
            atoms.set_masses(rng.uniform(1, 100, n))
        elif ex == "i2":
            atoms.set_array("qv_i2", rng.integers(-9, 9, (n, 2)).astype(np.int32))
        elif ex == "f":
            atoms.set_array("qv_f", rng.normal(size=n))
    cons = []
    for c in a.get("constraints", []):
        if c == "FixCom":
            cons.append(FixCom())
        elif c.startswith("FixAtoms"):
            # FixAtoms:last2 / FixAtoms:first1 / FixAtoms:framework
            what = c.split(":")[1]
            if what == "framework":
                idx = [i for i in range(n) if labels[i] < 0]
            elif what.startswith("neglast"):  # the same atoms given the way ASE also accepts them: negative indices
                idx = list(range(-int(what[7:]), 0))
            elif what.startswith("masklast"):  # ... or as a boolean mask
                k_ = int(what[8:])
                cons.append(FixAtoms(mask=[i >= n - k_ for i in range(n)]))
                continue
            elif what.startswith("last"):
                idx = list(range(n - int(what[4:]), n))
            elif what.startswith("first"):
                idx = list(range(int(what[5:])))
            else:
                idx = [int(x) for x in what.split(",")]
            if idx:
                cons.append(FixAtoms(indices=idx))
    if cons:
        atoms.set_constraint(cons)
    return atoms, np.asarray(labels)


def molecule_template(size: int, symbol: str | None = None):
    from ase import Atoms

    if size == 1:
        return Atoms(symbol or "Ar", positions=[[0.0, 0.0, 0.0]])
    if size == 2:
        return Atoms("N2", positions=[[0.0, 0.0, -0.55], [0.0, 0.0, 0.55]])
    return Atoms("OH2", positions=[[0.0, 0.0, 0.12], [0.0, 0.76, -0.47], [0.0, -0.76, -0.47]])


def build_calc(c: dict, atoms):
    kind = c.get("kind", "soft")
    style = c.get("style", "plain")
    if kind == "soft":
        return SoftPair(A=c.get("A", 0.3), s=c.get("s", 1.2), field=c.get("field", 0.05), style=style)
    if kind == "ideal":
        return IdealGas(style=style)
    if kind == "harmonic":
        sites = np.array(c["sites"]) if "sites" in c else atoms.get_positions()
        return Harmonic(sites, c.get("k", 2.0), quartic=c.get("q", 0.0), style=style)
    if kind == "committee":
        def extra(a):
            f = -0.4 * (a.positions - a.positions.mean(0))
            out = {"forces_comm": np.stack([f * 1.1 + 0.01, f * 0.9 - 0.01, f])}
            if c.get("energies"):
                # NB: 'energies' is also ASE's per-atom energies key; the extended-XYZ writer then tries to
                # store the committee vector per atom (observed: ValueError) - only used without a trajectory
                out["energies"] = np.array([0.1, 0.2, 0.3]) * len(a)
            return out

        return Prescribed(energy=lambda a: 0.2 * float(((a.positions - a.positions.mean(0)) ** 2).sum()), forces=lambda a: -0.4 * (a.positions - a.positions.mean(0)) * (1 - 1 / max(1, len(a))), extra=extra, style=style)
    if kind == "emt":
        from ase.calculators.emt import EMT

        return EMT()
    if kind == "lj":
        from ase.calculators.lj import LennardJones

        return LennardJones(sigma=c.get("sigma", 2.0), epsilon=c.get("epsilon", 0.01), rc=c.get("rc", 5.0), smooth=True)
    raise ValueError(kind)


# ----------------------------------------------------------------------------- moves
def build_op(o):
    import quansino.operations.cell as oc
    import quansino.operations.displacement as od

    if o is None:
        return None
    if isinstance(o, list):  # composite operation: sum
        ops = [build_op(x) for x in o]
        out = ops[0]
        for x in ops[1:]:
            out = out + x
        return out
    t = o["t"]
    if t in ("Ball", "Box", "Sphere"):
        return getattr(od, t)(o.get("step", 0.3))
    if t in ("Translation", "Rotation", "TranslationRotation"):
        return getattr(od, t)()
    if t in ("Iso", "Aniso", "Shape"):
        cls = {"Iso": oc.IsotropicDeformation, "Aniso": oc.AnisotropicDeformation, "Shape": oc.ShapeDeformation}[t]
        mask = o.get("mask")
        return cls(o.get("mv", 0.05), mask=None if mask is None else np.array(mask, dtype=bool))
    raise ValueError(t)


def mod_labels(labels, mod):
    """Relabelings that keep the particle partition: 'gap' (non-contiguous), 'rev' (descending / unsorted),
    and spectator patterns for displacement moves: 'someneg' (every other particle -1), 'allneg' (nothing eligible)."""
    labels = np.array(labels, dtype=int)
    if not mod:
        return labels
    pos = labels >= 0
    if mod == "gap":
        labels[pos] = 3 * labels[pos] + 2
    elif mod == "rev":
        labels[pos] = labels[pos].max() - labels[pos] if pos.any() else labels[pos]
    elif mod == "pairs":  # a coarser grouping than the particles: consecutive particles displaced together as one group
        labels[pos] = labels[pos] // 2
    elif mod == "someneg":
        labels[pos & (labels % 2 == 1)] = -1
    elif mod == "allneg":
        labels[:] = -1
    return labels


def build_move(m: dict, labels, cache: dict):
    """m: {"t": "D"|"E"|"C"|"H"|"+"|"*"|"nest"|"ref", ...}; cache maps ids to already built moves."""
    from quansino.integrators.displacement import Verlet
    from quansino.moves.cell import CellMove
    from quansino.moves.displacement import DisplacementMove, HamiltonianDisplacementMove
    from quansino.moves.exchange import ExchangeMove

    t = m["t"]
    if t == "ref":
        return cache[m["id"]]
    if t == "+":
        parts = [build_move(p, labels, cache) for p in m["parts"]]
        if m.get("assoc") == "right" and len(parts) > 2:
            out = parts[-2] + parts[-1]
            for p in reversed(parts[:-2]):
                out = p + out
        else:
            out = parts[0]
            for p in parts[1:]:
                out = out + p
    elif t == "*":
        out = build_move(m["part"], labels, cache) * m["n"]
    elif t == "nest":
        # a composite built with the constructor from its parts as they are (+ and * splice composites, the constructor
        # nests them: an inner specialised composite keeps its own logic inside a plain one)
        from quansino.moves.composite import CompositeMove

        out = CompositeMove([build_move(p, labels, cache) for p in m["parts"]])
    elif t in ("D", "E"):
        lab = mod_labels(np.array(m.get("labels", labels)), m.get("labelmod"))
        if cache.get("share_label_arrays") and not m.get("labelmod") and "labels" not in m:
            # one and the same array object handed to several moves (labels = np.array(...); ExchangeMove(labels);
            # DisplacementMove(labels)), as a script that builds its moves from one variable does
            lab = cache.setdefault("the_shared_label_array", lab)
        if t == "D":
            out = DisplacementMove(lab, build_op(m.get("op")), apply_constraints=m.get("apply_constraints", True))
        else:
            out = ExchangeMove(lab, build_op(m.get("op")), bias_towards_insert=m.get("bias", 0.5))
    elif t == "C":
        out = CellMove(build_op(m.get("op")), scale_atoms=m.get("scale", True))
    elif t == "P":
        out = BareMove(step=m.get("step", 0.2), result=m.get("result", True))
    elif t == "H":
        hkw = {}
        if m.get("forced"):
            # the shipped refresh with its documented `forced` option (exact target kinetic temperature)
            import functools

            from quansino.utils.dynamics import maxwell_boltzmann_distribution

            hkw["distribution"] = functools.partial(maxwell_boltzmann_distribution, forced=True)
        out = HamiltonianDisplacementMove(operation=Verlet(dt=m.get("dt", 1.0), max_steps=m.get("steps", 5)), **hkw)
    else:
        raise ValueError(t)
    if t in ("D", "E", "C", "H"):
        if "default_label" in m and t in ("D", "E"):
            out.default_label = m["default_label"]
        if m.get("veto"):
            out.check_move = Veto(m["veto"], salt=m.get("salt", 0))
            out.max_attempts = m.get("max_attempts", 3)
        if "preselect" in m:
            pass
    for k, v in (m.get("attrs") or {}).items():  # any tunable attribute, composites included
        setattr(out, k, v)
    if "id" in m:
        cache[m["id"]] = out
    return out


REAL_CRITERIA = {"canonical": "CanonicalCriteria", "hamiltonian": "HamiltonianCanonicalCriteria", "isobaric": "IsobaricCriteria", "isotension": "IsotensionCriteria", "grand": "GrandCanonicalCriteria"}


def make_criteria(c: str, salt: int = 0):
    """'canonical' | 'isobaric' | ... -> the shipped criteria class (needed for composites, which have no
    default criteria); anything else -> a scripted bare-protocol criteria following that schedule."""
    import quansino.mc.criteria as qc

    if c in REAL_CRITERIA:
        return getattr(qc, REAL_CRITERIA[c])()
    return ScriptedCriteria(c, salt=salt)


DRIVERS = ("MonteCarlo", "Canonical", "HamiltonianCanonical", "Isobaric", "Isotension", "GrandCanonical", "ForceBias", "AdaptiveForceBias")


def build(spec: dict, **driver_kwargs):
    """-> (mc, info).  spec keys: driver, seed, T, P, S, mu, nexch, cycles, atoms{}, calc{}, table[], species"""
    from quansino.mc.canonical import Canonical, HamiltonianCanonical
    from quansino.mc.core import MonteCarlo
    from quansino.mc.fbmc import AdaptiveForceBias, ForceBias
    from quansino.mc.gcmc import GrandCanonical
    from quansino.mc.isobaric import Isobaric
    from quansino.mc.isotension import Isotension

    register_scripted()
    atoms, labels = build_atoms(spec.get("atoms", {}))
    atoms.calc = build_calc(spec.get("calc", {}), atoms)
    d = spec["driver"]
    seed = spec.get("seed", 1)
    T = spec.get("T", 300.0)
    cycles = spec.get("cycles", 2)
    cyc = {} if cycles == "default" else {"max_cycles": cycles}  # "default": the driver's own (one cycle per atom at construction)
    kw = dict(seed=seed, **driver_kwargs)
    cache: dict = {}
    if spec.get("share_label_arrays"):
        cache["share_label_arrays"] = True
    prebuilt: dict = {}
    if spec.get("ctor_defaults") and d in ("Canonical", "Isobaric", "Isotension", "GrandCanonical"):
        # hand the first eligible plain moves of the table to the driver's constructor (the documented
        # default_displacement_move / default_cell_move / default_exchange_move parameters): they are then registered
        # under the drivers' own default names, with the default criteria, before every other entry
        slots = {"D": "default_displacement_move"}
        if d in ("Isobaric", "Isotension"):
            slots["C"] = "default_cell_move"
        if d == "GrandCanonical":
            slots["E"] = "default_exchange_move"
        taken = set()
        for e in spec.get("table", []):
            t = e["move"].get("t")
            if t in slots and t not in taken:
                taken.add(t)
                mv = build_move(e["move"], labels, cache)
                kw[slots[t]] = mv
                e["name"] = slots[t]
                prebuilt[slots[t]] = mv
    if d == "MonteCarlo":
        mc = MonteCarlo(atoms, **cyc, **kw)
    elif d == "Canonical":
        mc = Canonical(atoms, temperature=T, **cyc, **kw)
    elif d == "HamiltonianCanonical":
        mc = HamiltonianCanonical(atoms, temperature=T, **cyc, **kw)
    elif d == "Isobaric":
        mc = Isobaric(atoms, temperature=T, pressure=spec.get("P", 0.001), **cyc, **kw)
    elif d == "Isotension":
        S = spec.get("S")
        mc = Isotension(atoms, temperature=T, pressure=spec.get("P", 0.001), external_stress=None if S is None else np.array(S), **cyc, **kw)
    elif d == "GrandCanonical":
        species = molecule_template(spec.get("species", 1), spec.get("species_symbol"))
        mc = GrandCanonical(atoms, exchange_atoms=species, temperature=T, chemical_potential=spec.get("mu", -0.1), number_of_exchange_particles=spec.get("nexch", int(len(np.unique(labels[labels >= 0])))), **cyc, **kw)
    elif d == "ForceBias":
        mc = ForceBias(atoms, delta=spec.get("delta", 0.1), temperature=T, **kw)
    elif d == "AdaptiveForceBias":
        mc = AdaptiveForceBias(atoms, min_delta=spec.get("min_delta", 0.02), max_delta=spec.get("delta", 0.2), temperature=T, scheme=spec.get("scheme", "forces"), update_function=spec.get("update", "tanh"), **kw)
    else:
        raise ValueError(d)
    if spec.get("accessible_volume_fraction") is not None:
        # a porous host: only part of the cell is accessible to the exchanged species (documented setting)
        mc.accessible_volume = float(spec["accessible_volume_fraction"]) * float(atoms.cell.volume)
    info = {"labels": labels, "moves": {}, "criteria": {}}
    for e in spec.get("table", []):
        if e["name"] in prebuilt:
            # the rest of the entry through the move table's documented attributes
            st_ = mc.moves[e["name"]]
            st_.probability = e.get("probability", 1.0)
            st_.interval = e.get("interval", 1)
            st_.minimum_count = e.get("min", 0)
            if e.get("criteria"):
                st_.criteria = make_criteria(e["criteria"], derive_seed(spec.get("seed", 0), e["name"]) % 1000)
            info["moves"][e["name"]] = prebuilt[e["name"]]
            info["criteria"][e["name"]] = mc.moves[e["name"]].criteria
            continue
        mv = build_move(e["move"], labels, cache)
        crit = None
        if e.get("criteria"):
            crit = make_criteria(e["criteria"], derive_seed(spec.get("seed", 0), e["name"]) % 1000)
        mc.add_move(mv, criteria=crit, name=e["name"], interval=e.get("interval", 1), probability=e.get("probability", 1.0), minimum_count=e.get("min", 0))
        info["moves"][e["name"]] = mv
        info["criteria"][e["name"]] = mc.moves[e["name"]].criteria
    return mc, info


def walk_moves(move):
    """All elementary moves reachable from a table entry (composites recursively)."""
    if hasattr(move, "moves"):
        for m in move.moves:
            yield from walk_moves(m)
    else:
        yield move


def state_digest(mc) -> str:
    """Digest of everything a trajectory comparison cares about."""
    h = hashlib.sha256()
    h.update(digest_atoms(mc.atoms).encode())
    h.update(repr(getattr(mc, "step_count", None)).encode())
    h.update(repr([(str(n), None if v is None else bool(v)) for n, v in getattr(mc, "move_history", [])]).encode())
    ctx = getattr(mc, "context", None)
    if ctx is not None:
        for f in ("last_potential_energy", "number_of_exchange_particles", "last_kinetic_energy", "accessible_volume", "chemical_potential", "temperature", "pressure", "external_stress"):
            if hasattr(ctx, f):
                h.update(repr(np.asarray(getattr(ctx, f)).tolist()).encode())
    for name, st in getattr(mc, "moves", {}).items():
        for m in walk_moves(st.move):
            lab = getattr(m, "labels", None)
            if lab is not None:
                h.update(name.encode())
                h.update(np.asarray(lab).astype(np.int64).tobytes())
    return h.hexdigest()[:24]
