"""C05 - grand-canonical bookkeeping tracks the real system.

Monitor: a shadow ledger independent of the package's bookkeeping.  Every atom carries a
hidden per-atom array `qv_uid` (template atoms carry -1 and receive fresh uids when the
trial tracer sees them appear), so comparing uids before/after each trial yields exactly
which atoms vanished and appeared; appeared atoms are grouped into particles by
consecutive chunks of the template's size.  After every trial the ledger is compared
with every label-bearing move reached by walking the move table (composites recursively,
each distinct object once): label length, same-label <=> same-particle, configured label
for new atoms honoured, recorded particle number = initial + accepted insertions -
accepted deletions, exchange template untouched.
Further dimensions: displacement moves with a coarser grouping (pairs of particles under one label), moves built
from one and the same label array object, insertions pre-selected with another number of atoms than the template; a
new particle's label must not be one that atoms present before the trial already carry.
A quarter of the simulations start from a recorded count of the user's choosing (unrelated to the labels), all with
scripted criteria: the count follows initial + insertions - deletions also below zero.
"""
from __future__ import annotations

import re
import traceback

import numpy as np

from qv import workloads
from qv.lib import Rec, diff_snap, install_exchange_counter, rng_for, snap_atoms, trace, vstr, exch_finding_applies, exch_reset

LEVEL = "exploration"
RULE = (
    "one evaluation = one trial of a grand-canonical simulation (seeded move table: exchange moves alone, next to displacement moves, e*2, e+e, d+e, d*2+e, the same move "
    "object under two names; atomic and 2-/3-atom molecular species; labelings with framework spectators; default_label in {None,0,7,-1}; scripted and real criteria, vetoes); "
    "distinct by (table shape, species size, default label, verdict, insertion/deletion/displacement); non-trivial = trials in which atoms appeared or vanished, or that follow one"
)
ASSUMPTIONS = [
    "all label-bearing moves of one simulation start from the same particle partition (displacement moves may additionally mark particles -1 = do not touch)",
    "drivers only ever insert copies of the exchange template, so appeared atoms are grouped into particles by consecutive chunks of the template size",
    "label uniqueness across particles is judged only when no default label is configured (a configured label is shared by construction)",
    "when a non-negative default label is configured, all inserted particles share it and form one deletable group by the package's own definition; the particle-number clause is then not judged",
]
REQUIRED = {"simulations_with_initial_count_unrelated_to_the_labels": 20, "recorded_count_below_zero_observed": 5, "accepted_insertions_of_another_size": 20, "trials": 3000, "accepted_insertions": 300, "accepted_deletions": 200, "rejected_exchanges": 200, "label_arrays_checked": 5000, "default_label_insertions": 50, "template_checks": 1000, "composite_table_trials": 300}
SHARD_TIMEOUT = {"quick": 900, "thorough": 3000}


def plan(tier, seed):
    n = 16 if tier == "quick" else 32
    return [{"name": f"gc{j}", "j": j, "seed": seed, "sims": 30 if tier == "quick" else 80, "steps": 40 if tier == "quick" else 120} for j in range(n)]


def classify_exception(ex) -> str:
    tb = traceback.extract_tb(ex.__traceback__)
    fr = [f for f in tb if "/quansino/" in f.filename and "/qv/" not in f.filename]
    where = f"{fr[-1].filename.split('/quansino/')[-1]}:{fr[-1].name}" if fr else "outside-package"
    return f"{type(ex).__name__}@{where}"


def table_shape(spec):
    def sh(m):
        t = m["t"]
        if t == "+":
            return "(" + "+".join(sh(p) for p in m["parts"]) + ")"
        if t == "*":
            return sh(m["part"]) + f"*{m['n']}"
        if t == "ref":
            return "same"
        return t

    return ",".join(sh(e["move"]) for e in spec["table"])


def run_one(rec: Rec, spec, steps, tag):
    from qv import sims

    shape = table_shape(spec)
    composite = any(c in shape for c in "+*") or "same" in shape
    try:
        mc, info = sims.build(spec)
    except Exception as ex:  # noqa: BLE001
        rec.viol(f"C05/build-raised/{classify_exception(ex)}", f"building the simulation raised {ex}"[:300], {"table": shape})
        return
    atoms = mc.atoms
    n0 = len(atoms)
    atoms.set_array("qv_uid", np.arange(n0, dtype=np.int64))
    template = mc.exchange_atoms
    tsize = len(template)
    template.set_array("qv_uid", -np.ones(tsize, dtype=np.int64))
    tsnap = snap_atoms(template)
    labels0 = np.asarray(info["labels"])
    part = {i: ("init", int(labels0[i])) if labels0[i] >= 0 else ("fw", i) for i in range(n0)}  # uid -> particle
    st = {"next_uid": n0, "n_ins": 0, "n_del": 0, "N0": int(spec["nexch"]) if "nexch" in spec else int(mc.number_of_exchange_particles), "after_exchange": False}
    moves = []
    seen = set()
    for name, storage in mc.moves.items():
        for m in sims.walk_moves(storage.move):
            if id(m) not in seen and hasattr(m, "labels"):
                seen.add(id(m))
                moves.append((name, m))
    dl = {id(m): getattr(m, "default_label", None) for _, m in moves}
    # moves whose user labelling groups several particles under one label (a coarser grouping than the particles): the
    # "one label, one particle" clause cannot hold for them from the start and is not judged; everything else is
    grouping = set()
    for _, m in moves:
        lab_ = np.asarray(m.labels)
        byl_: dict = {}
        for r_ in range(min(len(lab_), n0)):
            if lab_[r_] >= 0:
                byl_.setdefault(int(lab_[r_]), set()).add(part[r_])
        if any(len(v) > 1 for v in byl_.values()):
            grouping.add(id(m))
    if grouping:
        rec.count("simulations_with_a_coarser_grouping_move")
    wit0 = {"table": shape, "species_size": tsize, "default_labels": sorted({repr(v) for v in dl.values()}), "seed": spec["seed"], "atoms": spec["atoms"].get("kind")}

    def snap(m):
        return {"uid": np.array(m.atoms.arrays["qv_uid"], copy=True), "labels": {id(mv): np.array(mv.labels, copy=True) for _, mv in moves}, "N": int(m.number_of_exchange_particles)}

    class KeyedRec:
        """After two exchange moves succeeded inside one plain composite trial the simulation's bookkeeping is
        known to be broken (recorded finding): everything observed afterwards in this simulation is attributed to it."""

        def viol(self, key, what, witness=None):
            if st.get("two_exchanges_in_plain_composite"):
                rec.count("symptoms_after_two_exchanges_in_plain_composite")
                key = "C05/two-exchange-moves-succeed-in-one-plain-composite-trial"
                what = "after a plain composite (built with +) performed two exchange moves in one trial: " + what
            rec.viol(key, what, witness)

    krec = KeyedRec()
    exch_reset()

    def on_trial(t):
        rec.count("trials")
        rec.evaluations += 1
        if exch_finding_applies():
            st["two_exchanges_in_plain_composite"] = True
            rec.count("trials_with_two_exchanges_in_plain_composite")
        exch_reset()
        if composite:
            rec.count("composite_table_trials")
        pre_size = st.pop("pre_size", None)
        b, a = t.before, t.after
        ub, ua = b["uid"], a["uid"]
        gone = [int(u) for u in ub if u >= 0 and u not in set(ua.tolist())]
        new_rows = [i for i, u in enumerate(ua) if u < 0]
        wit = {**wit0, "step": t.step, "trial": t.k, "move": t.name, "verdict": vstr(t.verdict)}
        kind = "displacement"
        if t.verdict is not True:
            if gone or new_rows:
                krec.viol("C05/atoms-changed-in-unaccepted-trial", f"{vstr(t.verdict)} trial changed the set of atoms", wit)
                # re-synchronise the ledger so that later reports stay meaningful
            if gone or new_rows or st["after_exchange"]:
                rec.case(shape, tsize, vstr(t.verdict), "after-exchange")
            if any(not np.array_equal(b["labels"][k], a["labels"][k]) for k in b["labels"]):
                krec.viol("C05/labels-changed-in-unaccepted-trial", f"labels changed although the trial was {vstr(t.verdict)}", wit)
            if a["N"] != b["N"]:
                krec.viol("C05/particle-number-changed-in-unaccepted-trial", f"recorded particle number changed {b['N']}->{a['N']} in a {vstr(t.verdict)} trial", wit)
            if t.verdict is False and (t.name and True):
                rec.count("rejected_exchanges" if "E" in shape else "rejected_other")
        # ---- accepted: update ledger
        n_ins = n_del = 0
        new_particles = []
        if t.verdict is True:
            if new_rows:
                kind = "insertion"
                psize = tsize
                if pre_size and len(new_rows) == pre_size:
                    psize = pre_size  # the pre-selected particle of another size was inserted (whole)
                    rec.count("accepted_insertions_of_another_size")
                if len(new_rows) % psize:
                    krec.viol("C05/partial-template-inserted", f"{len(new_rows)} atoms appeared, the particle to insert has {psize}", wit)
                arr = mc.atoms.arrays["qv_uid"]
                for c in range(0, len(new_rows), psize):
                    chunk = new_rows[c : c + psize]
                    pid = ("ins", st["next_uid"])
                    for r in chunk:
                        arr[r] = st["next_uid"]
                        part[st["next_uid"]] = pid
                        st["next_uid"] += 1
                    new_particles.append((pid, chunk))
                    n_ins += 1
            if gone:
                kind = "deletion" if kind == "displacement" else "insertion+deletion"
                gp = {}
                for u in gone:
                    gp.setdefault(part.get(u), []).append(u)
                for pid, us in gp.items():
                    members = [u for u, p in part.items() if p == pid]
                    if pid is None or pid[0] == "fw":
                        krec.viol("C05/non-exchangeable-atom-deleted", "a spectator (negative label) atom was deleted", wit)
                    elif sorted(us) != sorted(members) and not any(v is not None and v >= 0 for v in dl.values()):
                        krec.viol("C05/partial-particle-deleted", f"only atoms {us} of particle {pid} (members {members}) were deleted", wit)
                    n_del += 1
                    for u in us:
                        part.pop(u, None)
            st["n_ins"] += n_ins
            st["n_del"] += n_del
            rec.count("accepted_insertions", n_ins)
            rec.count("accepted_deletions", n_del)
        st["after_exchange"] = bool(n_ins or n_del)
        if n_ins or n_del:
            rec.case(shape, tsize, kind, sorted({repr(v) for v in dl.values()}))
        # ---- compare every label-bearing move with the ledger
        uid_now = mc.atoms.arrays["qv_uid"]
        natoms = len(mc.atoms)
        for name, mv in moves:
            rec.count("label_arrays_checked")
            lab = np.asarray(mv.labels)
            w2 = {**wit, "labels_of": name, "labels": lab.tolist()[:40], "natoms": natoms, "kind": kind}
            if len(lab) != natoms:
                how = "same-object-twice" if ("same" in shape or "*" in shape) else "other"
                krec.viol(f"C05/label-length/{kind}/{how}", f"move '{name}' has {len(lab)} labels for {natoms} atoms after a {vstr(t.verdict)} {kind} trial", w2)
                continue
            d = dl[id(mv)]
            for pid, rows in new_particles:
                got = lab[rows]
                if d is not None:
                    rec.count("default_label_insertions")
                    if np.any(got != d):
                        krec.viol(f"C05/default-label-ignored/{'zero' if d == 0 else ('negative' if d < 0 else 'positive')}", f"new atoms got labels {got.tolist()} although default_label={d}", w2)
                elif len(set(got.tolist())) != 1:
                    krec.viol("C05/inserted-particle-split-labels", f"atoms of one inserted particle got labels {got.tolist()}", w2)
            if d is None:
                # a new particle gets a label of its own: none that other atoms of this move already carry
                all_new = [r for _, rows_ in new_particles for r in rows_]
                for pid, rows in new_particles:
                    others = np.delete(lab, all_new)  # atoms that were there before the trial (two particles inserted in one trial sharing a label is the listed finding, judged below)
                    if len(rows) and lab[rows[0]] >= 0 and np.any(others == lab[rows[0]]):
                        krec.viol("C05/new-particle-label-already-in-use", f"the inserted particle got label {int(lab[rows[0]])} in move '{name}', which other atoms already carry", w2)
            if d is None and id(mv) not in grouping:
                # same non-negative label <=> same ledger particle
                byl: dict = {}
                for r in range(natoms):
                    if lab[r] >= 0:
                        byl.setdefault(int(lab[r]), set()).add(part.get(int(uid_now[r])))
                clash = {l: ps for l, ps in byl.items() if len(ps) > 1}
                if clash:
                    l, ps = next(iter(clash.items()))
                    ins = sum(1 for p in ps if p and p[0] == "ins")
                    how = "two-insertions-in-one-trial" if ins >= 2 and any(c in shape for c in "+*") else "other"
                    if how == "two-insertions-in-one-trial":
                        st["shared_label_event"] = True
                    krec.viol(f"C05/distinct-particles-share-label/{how}", f"label {l} of move '{name}' is carried by distinct particles {sorted(map(str, ps))}", w2)
                byp: dict = {}
                for r in range(natoms):
                    p = part.get(int(uid_now[r]))
                    if p and p[0] != "fw" and lab[r] >= 0:
                        byp.setdefault(p, set()).add(int(lab[r]))
                split = {p: ls for p, ls in byp.items() if len(ls) > 1}
                if split:
                    p, ls = next(iter(split.items()))
                    krec.viol("C05/particle-split-labels", f"atoms of particle {p} carry different labels {sorted(ls)} in move '{name}'", w2)
        # ---- particle number
        want = st["N0"] + st["n_ins"] - st["n_del"]
        if want < 0:
            rec.count("recorded_count_below_zero_observed")
        shared_label = any(v is not None and v >= 0 for v in dl.values())
        if shared_label:
            # a configured non-negative label is shared by every inserted particle: by the package's own
            # definition they then form ONE deletable group, so "number of particles" is ambiguous - not judged
            rec.count("particle_number_not_judged_shared_default_label")
        elif int(mc.number_of_exchange_particles) != want:
            how = "composite" if any(c in shape for c in "+*") else "single"
            if st.get("shared_label_event"):
                how = "after-two-insertions-shared-one-label"  # consequence of the label clash reported above
            krec.viol(f"C05/particle-number-drift/{how}", f"recorded number of exchange particles {mc.number_of_exchange_particles}, ledger says {st['N0']}+{st['n_ins']}-{st['n_del']}={want}", wit)
            st["N0"] += int(mc.number_of_exchange_particles) - want  # re-sync: report each drift once
        # ---- template untouched
        rec.count("template_checks")
        tdiff = diff_snap(tsnap, snap_atoms(mc.exchange_atoms))
        if tdiff:
            krec.viol("C05/template-modified", f"the exchange template changed: {tdiff[:3]}", wit)
        for k, arr in mc.exchange_atoms.arrays.items():
            if k in mc.atoms.arrays and arr is mc.atoms.arrays[k]:
                krec.viol("C05/template-shares-arrays", f"template array '{k}' is the simulation's array object", wit)
        rec.sample({**wit, "kind": kind, "natoms": natoms, "N_exch": int(mc.number_of_exchange_particles)}, cap=3)

    try:
        pre_rng = np.random.default_rng(spec["seed"] % 2**32)

        def at_yield(m, name):
            """Now and then a second species through the documented to_add_atoms hook: a particle with another number of
            atoms than the exchange template, pre-selected on a plain exchange move that is about to run."""
            st.pop("pre_size", None)
            entry = mc.moves.get(name)
            if entry is None or pre_rng.random() > 0.12:
                return
            mv = entry.move
            if not hasattr(mv, "to_add_atoms") or hasattr(mv, "moves"):
                return
            from ase import Atoms as _Atoms

            other = _Atoms("CO", positions=[[0, 0, 0], [0, 0, 1.1]]) if tsize == 1 else _Atoms("Ar")
            other.set_array("qv_uid", -np.ones(len(other), dtype=int))
            mv.to_add_atoms = other
            st["pre_size"] = len(other)
            rec.count("preselected_insertions_of_another_size")

        trace(mc, steps, snap=snap, on_trial=on_trial, resnap=True, at_yield=at_yield)
    except Exception as ex:  # noqa: BLE001
        if exch_finding_applies():
            st["two_exchanges_in_plain_composite"] = True
        krec.viol(f"C05/run-raised/{classify_exception(ex)}", f"simulation raised {type(ex).__name__}: {ex}"[:300], {**wit0, "traceback": traceback.format_exc()[-600:]})


def run(spec):
    from qv import env

    env.import_quansino()
    install_exchange_counter()
    rec = Rec(spec["name"])
    rng = rng_for("C05", spec["seed"], spec["j"])
    for i in range(spec["sims"]):
        opts = {"calc": "ideal", "styles": ["plain", "keyed"], "p_scripted": 0.7, "constraints": False}
        r = rng.random()
        if r < 0.5:
            opts["default_label"] = [0, 7, -1][int(rng.integers(3))]
        s = workloads.gen(rng, "grand", pairs=True, **opts)
        if i % 3 == 2:
            s["share_label_arrays"] = True  # the moves of this simulation are built from one label array object
        s["T"] = 3000.0
        s["mu"] = float(rng.choice([0.0, 0.3, -0.2]))
        if i % 4 == 3:
            # the recorded number starts from a value of the user's choosing (0 by default in the package, whatever the
            # labels say): the clause is about initial value + insertions - deletions, wherever that leads
            s["nexch"] = int(rng.choice([0, 0, 1, 2, 50]))
            # every entry gets a scripted criteria here: the shipped grand-canonical rule is only defined for counts >= 0
            # (it divides by the count), and a scripted acceptance of a deletion at a recorded count of 0 leads below
            for e_ in s["table"]:
                if e_.get("criteria") in (None, "grand"):
                    e_["criteria"] = workloads.pick(rng, workloads.SCHEDULES)
            rec.count("simulations_with_initial_count_unrelated_to_the_labels")
        run_one(rec, s, spec["steps"], i)
    return rec.out()
