"""C13 - force-bias steps are bounded and follow the published force-biased density.

Monitor: a contract wrapped around the real `ForceBias.step` (class attribute, so the
adaptive subclass's steps are seen too) that snapshots positions before, and derives the
dimensionless displacement zeta_obs = dx / (delta (m_min/m)^p) from the positions after -
independently of the driver's own bookkeeping.  Oracles: |zeta_obs| <= 1 (bound),
agreement with the driver's reported zeta when it exposes one (advanced exactly once), a
logical watchdog of 200 resampling rounds on the wrapped `get_zeta` (termination), and a
Kolmogorov-Smirnov test of pooled zeta_obs against the closed-form Bal-Neyts CDF for
prescribed gamma = F delta / 2kT (density), with one re-measurement before an alarm.
The bound is judged against the delta and the mass-scaling power the workload asked
for (not what the driver reports), the density clause also by exact binomial tail tests
at the 1e-9..1e-2 quantiles, and live drivers are re-tuned (delta, temperature, power)
between steps.
The density clause is also run for the adaptive driver (range collapsed to one delta), at temperatures far from any
default and with two mass classes.
Seven more density shards have biases that are tiny but not zero (2e-10 <= |gamma| <= 1e-5); the closed-form CDF is
evaluated in a rearranged form that is accurate for any gamma > 0.
A third of the hostile drivers get displacement masses of their own through update_masses(masses), per atom or per
coordinate; bound and zeta-relation are judged against the masses the workload handed over.
"""
from __future__ import annotations

import math

import numpy as np

from qv.lib import Prescribed, Rec, derive_seed, rng_for

LEVEL = "exploration"
RULE = (
    "one evaluation = one ForceBias/AdaptiveForceBias step on seeded (forces incl. 1e-300..1e300, zeros, mixed signs; delta scalar or per-coordinate; T; masses; "
    "mass-scaling power scalar/dict/array); distinct by (force magnitude decade, delta kind, power kind, T decade, driver); non-trivial when at least one force component is non-zero. "
    "Density: i.i.d. zeta_obs pooled over steps with one force value on all coordinates, per |gamma| in {2e-10 .. 1e-5 (seven values), 1e-3,0.1,1,5,50,709.78,1e5} and both signs"
)
ASSUMPTIONS = [
    "zeta_obs tolerance: 1e-12 relative plus 8 ulp of the position (positions + displacement is rounded)",
    "termination restated as a bound: at most 200 resampling rounds per step (the correct algorithm needs more with probability < 2^-190); wall-clock watchdog firing = inconclusive",
    "density clause judged for |gamma| >= 2e-10 ('above rounding level' read as: where the cancellation error eps/|gamma| of the published formula in float64 is below 1e-6); "
    "on the pinned code the law departs from the density below |gamma| ~ 1e-14 and is the uniform one below 1e-16, where e^gamma - e^-gamma rounds to zero (observed, inside the statement's exclusion, not alarmed); "
    "at zero force only bound, symmetry-free, and termination are judged",
]
REQUIRED = {"steps_with_displacement_masses_given_to_update_masses": 100, "steps_after_retuning": 200, "tail_tests": 10, "steps": 1500, "steps_huge_force": 100, "steps_zero_force": 50, "steps_per_coordinate_delta": 100, "ks_tests": 12, "adaptive_steps": 50, "masses_updated_after_construction": 100}
SHARD_TIMEOUT = {"quick": 900, "thorough": 3000}
MAX_ROUNDS = 200

STATE: dict = {"rounds": 0, "zobs": None}


class TooManyRounds(Exception):
    pass


def plan(tier, seed):
    specs = []
    gammas = [1e-3, 0.1, 1.0, 5.0, 50.0, 709.78, 1e5]
    for g in gammas:
        for sgn in (1, -1):
            specs.append({"name": f"density-g{g:g}{'+' if sgn > 0 else '-'}", "mode": "density", "gamma": g * sgn, "seed": seed, "n": 100000 if tier == "quick" else 2000000})
    # the density clause for the adaptive driver too (range collapsed to one delta so that the law is known), at
    # temperatures far from any default, and for the plain driver at a second temperature
    for g, T, adaptive in ((1.0, 3000.0, True), (-5.0, 40.0, True), (5.0, 2500.0, False), (-1.0, 25.0, False)):
        specs.append({"name": f"density-g{g:g}-T{T:g}-{'adaptive' if adaptive else 'plain'}", "mode": "density", "gamma": g, "T": T, "adaptive": adaptive, "seed": seed, "n": 100000 if tier == "quick" else 1000000})
    # biases that are tiny but not zero (nearly relaxed or high-symmetry sites, very small delta, very high temperature):
    # the density is the triangular one to within the bias itself, which any "is this zero?" shortcut must not replace
    for g in (1e-5, -1e-6, 1e-7, -3e-8, 3e-9, -1e-9, 2e-10):
        specs.append({"name": f"density-tiny-g{g:g}", "mode": "density", "gamma": g, "tiny": True, "seed": seed, "n": 60000 if tier == "quick" else 600000})
    for j in range(8 if tier == "quick" else 32):
        specs.append({"name": f"hostile{j}", "mode": "hostile", "j": j, "seed": seed, "cases": 400 if tier == "quick" else 6000})
    return specs


# ----------------------------------------------------------------------------- closed-form CDF
def bn_cdf(z, g):
    """CDF of the Bal-Neyts density on [-1,1] for gamma=g (stable for |g| up to 1e308)."""
    z = np.asarray(z, dtype=float)
    if g < 0:
        return np.clip(1.0 - bn_cdf(-z, -g), 0.0, 1.0)
    if g < 1e-100:
        return np.where(z < 0, 0.5 * (1 + z) ** 2, 1 - 0.5 * (1 - z) ** 2)  # the triangular limit (the tilt is of order g)
    if g < 0.25:
        # small bias: the closed form below loses eps/g to cancellation; the same expression rearranged so that every
        # difference is taken analytically (h(x) = e^x - 1 - x by its series), accurate to rounding for any g > 0
        a = 2 * g
        D = -np.expm1(-a)

        def h(x):
            x = np.asarray(x, dtype=float)
            ser = sum(x ** (k + 2) / math.factorial(k + 2) for k in range(14))
            return np.where(np.abs(x) < 0.5, ser, np.expm1(x) - x)

        zn = np.minimum(z, 0.0)
        zp = np.maximum(z, 0.0)
        Fneg = math.exp(-a) * h(a * (zn + 1)) / (a * D)
        F0 = math.exp(-a) * float(h(a)) / (a * D)
        Fpos = F0 + (-h(a * zp) - np.expm1(-a) * np.expm1(a * zp)) / (a * D)
        return np.where(z < 0, Fneg, Fpos)
    # scale numerator and denominator by exp(-g)
    D = -np.expm1(-2 * g)  # 1 - e^{-2g}
    e2 = math.exp(-2 * g) if g < 700 else 0.0
    zn = np.minimum(z, 0.0)
    Fneg = ((np.exp(2 * g * zn) - e2) / (2 * g) - e2 * (zn + 1)) / D
    F0 = ((1 - e2) / (2 * g) - e2) / D
    zp = np.maximum(z, 0.0)
    Fpos = F0 + (zp - (np.exp(2 * g * (zp - 1)) - e2) / (2 * g)) / D
    return np.where(z < 0, Fneg, Fpos)


def bn_quantile(p, g):
    """z with bn_cdf(z, g) = p, by bisection (the CDF is continuous and strictly increasing on [-1, 1])."""
    lo, hi = -1.0, 1.0
    for _ in range(200):
        mid = 0.5 * (lo + hi)
        if float(bn_cdf(mid, g)) < p:
            lo = mid
        else:
            hi = mid
    return 0.5 * (lo + hi)


def tail_flags(z, g):
    """Exact rare-event test: numbers of samples beyond the 1e-9 .. 1e-2 quantiles of either tail against the binomial
    law.  A Kolmogorov-Smirnov statistic is blind to a small admixture (a fraction of a percent of the coordinates
    following another law) that this sees at once, because the admixture lands where the published density has no mass."""
    from scipy.stats import binom

    out = []
    n = len(z)
    for q in (1e-9, 1e-7, 1e-5, 1e-3, 1e-2):
        for side in ("lower", "upper"):
            cut = bn_quantile(q if side == "lower" else 1 - q, g)
            if not -1 < cut < 1:
                continue
            pr = float(bn_cdf(cut, g)) if side == "lower" else 1 - float(bn_cdf(cut, g))
            if not 0 < pr < 0.5:
                continue
            k = int((z < cut).sum()) if side == "lower" else int((z > cut).sum())
            pv = float(binom.sf(k - 1, n, pr)) if k > n * pr else float(binom.cdf(k, n, pr))
            if pv < 1e-9:
                out.append((f"{side}-tail-beyond-{q:g}-quantile", k, n * pr, pv))
    return out


# ----------------------------------------------------------------------------- contract
def install(rec: Rec):
    from quansino.mc.fbmc import ForceBias

    orig_step = ForceBias.__dict__["step"]
    if "get_zeta" in ForceBias.__dict__:
        orig_zeta = ForceBias.__dict__["get_zeta"]

        def get_zeta(self):
            STATE["rounds"] += 1
            if STATE["rounds"] > MAX_ROUNDS:
                raise TooManyRounds
            return orig_zeta(self)

        ForceBias.get_zeta = get_zeta

    def step(self):
        pos0 = self.atoms.get_positions()
        STATE["rounds"] = 0
        STATE["zobs"] = None
        out = orig_step(self)
        pos1 = self.atoms.get_positions()
        judge_step(rec, self, pos0, pos1)
        return out

    ForceBias.step = step


INTENDED_MASSES: dict = {}  # id(driver) -> (driver, (n,3) displacement masses handed to update_masses by the workload)
INTENDED_DELTA: dict = {}  # id(driver) -> (driver, delta its constructor was given); plain ForceBias only
INTENDED_POWER: dict = {}  # id(driver) -> (driver, the (n,3) power the workload asked for); the bound is judged against what was asked


def intended_power(drv, syms, power):
    n = len(syms)
    if isinstance(power, dict):
        return np.repeat(np.array([power[s] for s in syms], dtype=float)[:, None], 3, axis=1)
    return np.broadcast_to(np.asarray(power, dtype=float), (n, 3)).copy()


def power_array(drv):
    it = INTENDED_POWER.get(id(drv))
    if it is not None and it[0] is drv:
        return it[1]
    p = drv.masses_scaling_power
    return np.broadcast_to(np.asarray(p, dtype=float), (len(drv.atoms), 3))


def judge_step(rec, drv, pos0, pos1):
    rec.count("steps")
    rec.count("rounds_observed", STATE["rounds"])
    n = len(drv.atoms)
    m = drv.atoms.get_masses()
    own = INTENDED_MASSES.get(id(drv))
    if own is not None and own[0] is drv:
        # the masses the workload handed to update_masses() (per atom or per coordinate), not the atoms' own
        scale = np.power(own[1].min() / own[1], power_array(drv))
    else:
        scale = np.power(m.min() / m, 1.0)[:, None] ** power_array(drv)
    asked = INTENDED_DELTA.get(id(drv))
    # plain force bias: the delta the driver was constructed with; adaptive: the delta it has adapted to (C18's subject)
    delta = np.broadcast_to(np.asarray(asked[1] if asked is not None and asked[0] is drv else drv.delta, dtype=float), (n, 3))
    bound = delta * scale
    dx = pos1 - pos0
    slop = 8 * np.spacing(np.maximum(np.abs(pos0), np.abs(pos1))) + 1e-12 * bound
    wit = {"natoms": n, "delta": np.asarray(drv.delta).ravel()[:4], "temperature": drv.temperature, "power": np.asarray(drv.masses_scaling_power).ravel()[:4], "masses": m[:4], "gamma_head": np.asarray(drv.gamma).ravel()[:4], "rounds": STATE["rounds"]}
    if not np.all(np.isfinite(dx)):
        rec.viol("C13/non-finite-displacement", "positions became non-finite", wit)
        return
    over = np.abs(dx) > bound + slop
    if over.any():
        i = np.argwhere(over)[0]
        rec.viol("C13/bound-exceeded", f"|dx|={abs(dx[tuple(i)]):.6g} > delta*(m_min/m)^p={bound[tuple(i)]:.6g}", {**wit, "coordinate": i.tolist()})
        return
    with np.errstate(divide="ignore", invalid="ignore"):
        zobs = np.where(bound > 0, dx / bound, 0.0)
    STATE["zobs"] = zobs
    zeta = getattr(drv, "zeta", None)
    if zeta is not None and np.shape(zeta) == (n, 3):
        rec.count("zeta_attribute_compared")
        err = np.abs(dx - np.asarray(zeta) * bound)
        if (err > slop).any():
            ratio = float(np.nanmedian(np.where(np.abs(zeta) > 1e-6, zobs / zeta, np.nan)))
            kind = "advanced-twice-or-scaled" if abs(ratio - 1) > 1e-6 and abs(ratio) > 1e-9 else ("not-advanced" if abs(ratio) <= 1e-9 else "mismatch")
            rec.viol(f"C13/displacement-not-zeta-delta/{kind}", f"dx differs from zeta*delta*(m_min/m)^p (median ratio {ratio:.6g})", wit)


# ----------------------------------------------------------------------------- workloads
def make_fb(rng, n, forces, delta, T, power, adaptive=False, masses=None, collapsed=False):
    from ase import Atoms

    from quansino.mc.fbmc import AdaptiveForceBias, ForceBias

    syms = [["H", "C", "O", "Cu", "Au"][int(i)] for i in rng.integers(0, 5, n)]
    atoms = Atoms(syms, positions=rng.uniform(0, 20, (n, 3)), cell=[25, 25, 25], pbc=False)
    if masses is not None:
        atoms.set_masses(masses)
    extra = {}
    if adaptive:
        # committee members never all exactly zero: a 0/0 variation is outside the statement's domain
        # (observed: it makes delta NaN and the step then resamples for ever - recorded in DESIGN.md)
        extra = {"forces_comm": np.stack([forces * 0.5 + 1e-3, forces * 0.25 - 2e-3])}
    atoms.calc = Prescribed(energy=0.0, forces=lambda a: forces, extra=extra)
    seed = derive_seed("c13", int(rng.integers(1, 2**40)))
    if adaptive:
        lo = float(np.min(delta)) * (1.0 if collapsed else 0.5)
        drv = AdaptiveForceBias(atoms, min_delta=lo, max_delta=float(np.max(delta)), temperature=T, seed=seed)
    else:
        drv = ForceBias(atoms, delta=delta, temperature=T, seed=seed)
        INTENDED_DELTA[id(drv)] = (drv, np.array(delta, dtype=float, copy=True))
    if power is not None:
        drv.masses_scaling_power = power
        INTENDED_POWER[id(drv)] = (drv, intended_power(drv, syms, power))
    return drv


def run_density(spec, rec):
    from scipy.stats import kstest

    g = spec["gamma"]
    rng = rng_for("C13d", spec["seed"], g, spec.get("T", 300.0), spec.get("adaptive", False))
    n = 200
    T = float(spec.get("T", 300.0))
    delta = 0.1
    kT = 8.617333262e-5 * T
    f = g * 2 * kT / delta
    g_eff = float(np.clip(g, -709.782712, 709.782712))

    def draw(m):
        forces = np.full((n, 3), f)
        # two mass classes in the extra shards (default scaling power 0.25): the density of the dimensionless displacement is
        # the same for light and heavy atoms, the mass enters the step length only
        mm = np.where(np.arange(n) % 2 == 0, 1.0, 16.0) if spec.get("T") is not None else np.full(n, 12.0)
        drv = make_fb(rng, n, forces, delta, T, None, masses=mm, adaptive=bool(spec.get("adaptive")), collapsed=True)
        zs = []
        for _ in range(max(1, m // (3 * n))):
            try:
                drv.step()
            except TooManyRounds:
                rec.viol("C13/no-termination", f"more than {MAX_ROUNDS} resampling rounds for gamma={g}", {"gamma": g})
                return None
            rec.evaluations += 1
            if STATE["zobs"] is None:  # the step contract already reported a violation
                return None
            zs.append(STATE["zobs"].ravel().copy())
        return np.concatenate(zs)

    z = draw(spec["n"])
    if z is None:
        return
    rec.count("ks_tests")
    rec.case("density", g)
    p = kstest(z, lambda x: bn_cdf(x, g_eff)).pvalue
    mean = float(z.mean())
    rec.data["ks_p"] = p
    rec.sample({"gamma": g, "gamma_after_clip": g_eff, "samples": len(z), "ks_p": p, "mean_zeta": mean}, cap=1)
    if p < 1e-6:
        rec.count("escalations")
        z2 = draw(4 * spec["n"])
        if z2 is None:
            return
        p2 = kstest(z2, lambda x: bn_cdf(x, g_eff)).pvalue
        if p2 < 1e-6:
            rec.viol("C13/density", f"dimensionless displacements do not follow the Bal-Neyts density for gamma={g}: KS p={p:.3g}, re-measured p={p2:.3g} (mean zeta {mean:.4f})", {"gamma": g, "n": [len(z), len(z2)], "mean_zeta": [mean, float(z2.mean())]})
    # rare events: the tails of the published density
    tf = tail_flags(z, g_eff)
    rec.count("tail_tests")
    if tf:
        rec.count("escalations")
        z2 = draw(4 * spec["n"])
        if z2 is None:
            return
        tf2 = {name: (k, e, pv) for name, k, e, pv in tail_flags(z2, g_eff)}
        for name, k, e, pv in tf:
            if name in tf2 and (tf2[name][0] > tf2[name][1]) == (k > e):
                rec.viol("C13/density-tail", f"gamma={g}: {k} of {len(z)} dimensionless displacements lie in the {name} where the Bal-Neyts density puts {e:.3g} (binomial p={pv:.3g}); re-measured {tf2[name][0]} of {len(z2)} against {tf2[name][1]:.3g}", {"gamma": g, "region": name, "observed": [k, tf2[name][0]], "expected": [e, tf2[name][1]]})
                break
    # displacement along the force is favoured
    if abs(g) >= 0.1:
        se = z.std() / math.sqrt(len(z))
        if mean * np.sign(g) < -5 * se:
            rec.viol("C13/against-force", f"mean displacement is against the force for gamma={g}: {mean:.4f}", {"gamma": g})


def run_hostile(spec, rec):
    rng = rng_for("C13h", spec["seed"], spec["j"])
    for _ in range(spec["cases"]):
        n = int(rng.integers(1, 30))
        mode = int(rng.integers(0, 7))
        if mode == 0:
            forces = np.zeros((n, 3))
        elif mode == 1:
            forces = rng.normal(size=(n, 3)) * 10 ** rng.uniform(-300, -100)
        elif mode == 2:
            forces = rng.normal(size=(n, 3)) * 10 ** rng.uniform(100, 300)
        elif mode == 3:
            forces = rng.choice([-1.0, 1.0], (n, 3)) * 10 ** rng.uniform(-300, 300, (n, 3))
        elif mode == 4:
            forces = rng.normal(size=(n, 3)) * 10 ** rng.uniform(-2, 2)
            forces[rng.random((n, 3)) < 0.3] = 0.0
        elif mode == 5:
            forces = np.full((n, 3), float(rng.choice([-1, 1])) * 1.7976931348623157e308)
        else:
            forces = rng.normal(size=(n, 3))
        dk = rng.random()
        if dk < 0.6:
            delta = float(10 ** rng.uniform(-3, 0.5))
            dkind = "scalar"
        else:
            delta = 10 ** rng.uniform(-3, 0.5, (n, 3))
            dkind = "per-coordinate"
        T = float(10 ** rng.uniform(0, 4))
        pk = int(rng.integers(0, 4))
        if pk == 0:
            power, pkind = None, "default"
        elif pk == 1:
            power, pkind = float(rng.uniform(0, 1)), "float"
        elif pk == 2:
            # every element of the workload's atoms is listed (what an unlisted element gets is not part of the statement)
            power, pkind = {"H": float(rng.uniform(0, 1)), "Cu": 0.5, "C": float(rng.uniform(0, 1)), "O": 0.0, "Au": float(rng.uniform(0, 1)), "Xe": 0.9}, "dict"
        else:
            power, pkind = rng.uniform(0, 1, (n, 3)), "array"
        adaptive = dkind == "scalar" and rng.random() < 0.15
        masses = rng.uniform(1, 250, n) if rng.random() < 0.5 else None
        wit = {"natoms": n, "force_mode": mode, "force_abs_max": float(np.abs(forces).max()), "delta_kind": dkind, "T": T, "power_kind": pkind, "adaptive": adaptive}
        try:
            drv = make_fb(rng, n, forces, delta, T, power, adaptive=adaptive, masses=masses)
            if rng.random() < 0.35:
                # masses changed after construction through the public update_masses() (isotope / species change),
                # with or without re-assigning the mass-scaling power afterwards
                drv.atoms.set_masses(rng.uniform(1, 250, n))
                drv.update_masses()
                rec.count("masses_updated_after_construction")
                if rng.random() < 0.3 and power is not None:
                    drv.masses_scaling_power = power
            elif rng.random() < 0.3:
                # displacement masses of the driver's own, handed to update_masses(): fictitious per-atom masses, or
                # one mass per coordinate; the atoms keep theirs
                dm = rng.uniform(1, 250, n) if rng.random() < 0.5 else rng.uniform(1, 250, (n, 3))
                drv.update_masses(dm.copy())
                INTENDED_MASSES[id(drv)] = (drv, np.broadcast_to(dm[:, None] if dm.ndim == 1 else dm, (n, 3)).copy())
                rec.count("steps_with_displacement_masses_given_to_update_masses", 3)
            for _ in range(3):
                drv.step()
                rec.evaluations += 1
                if mode in (2, 5):
                    rec.count("steps_huge_force")
                if mode == 0:
                    rec.count("steps_zero_force")
                if dkind != "scalar":
                    rec.count("steps_per_coordinate_delta")
                if adaptive:
                    rec.count("adaptive_steps")
            if not adaptive and rng.random() < 0.3:
                # the live driver re-tuned through its documented attributes (delta, temperature, power) between steps
                n_ = len(drv.atoms)
                delta2 = float(10 ** rng.uniform(-3, 0.5)) if rng.random() < 0.5 else 10 ** rng.uniform(-3, 0.5, (n_, 3))
                drv.delta = delta2
                drv.temperature = float(10 ** rng.uniform(0, 4))
                INTENDED_DELTA[id(drv)] = (drv, np.array(delta2, dtype=float, copy=True))
                if rng.random() < 0.5:
                    p2 = rng.uniform(0, 1, (n_, 3))
                    drv.masses_scaling_power = p2
                    INTENDED_POWER[id(drv)] = (drv, p2.copy())
                for _ in range(2):
                    drv.step()
                    rec.evaluations += 1
                    rec.count("steps_after_retuning")
        except TooManyRounds:
            rec.viol("C13/no-termination", f"more than {MAX_ROUNDS} resampling rounds in one step", wit)
        except Exception as ex:  # noqa: BLE001
            rec.viol(f"C13/raised/{type(ex).__name__}", f"force-bias step raised {type(ex).__name__}: {ex}", wit)
        if np.any(forces != 0):
            rec.case("hostile", mode, dkind, pkind, int(math.log10(T)), adaptive)
        rec.sample(wit, cap=2)


def run(spec):
    from qv import env

    env.import_quansino()
    rec = Rec(spec["name"])
    install(rec)
    {"density": run_density, "hostile": run_hostile}[spec["mode"]](spec, rec)
    return rec.out()
