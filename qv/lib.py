"""Shared monitor machinery: result recorder, seeds, snapshots, trial tracer,
RNG shadow, independent analytic calculators and statistical helpers."""
from __future__ import annotations

import hashlib
import json
import math
from typing import Any

import numpy as np

from qv import env

env.setup_path()

from ase import Atoms  # noqa: E402
from ase.calculators.calculator import Calculator, all_changes  # noqa: E402
from ase.units import kB  # noqa: E402,F401


# --------------------------------------------------------------------------- recorder
class Rec:
    """What one shard observed."""

    def __init__(self, name: str):
        self.name = name
        self.evaluations = 0
        self.cases: set[str] = set()
        self.samples: list = []
        self.counters: dict[str, float] = {}
        self.violations: list[dict] = []
        self.inconclusive: list[str] = []
        self.data: dict = {}
        self._vkeys: dict[str, int] = {}

    def count(self, name: str, n: float = 1) -> None:
        self.counters[name] = self.counters.get(name, 0) + n

    def case(self, *key: Any) -> None:
        self.cases.add("|".join(str(k) for k in key))

    def sample(self, obj: Any, cap: int = 3) -> None:
        if len(self.samples) < cap:
            self.samples.append(obj)

    def viol(self, key: str, what: str, witness: Any = None) -> None:
        n = self._vkeys.get(key, 0)
        self._vkeys[key] = n + 1
        if n == 0:
            self.violations.append({"key": key, "what": what, "witness": jsonable(witness)})

    def out(self) -> dict:
        for k, n in self._vkeys.items():
            self.counters["violations:" + k] = n
        return {
            "name": self.name,
            "evaluations": int(self.evaluations),
            "cases": sorted(self.cases),
            "samples": jsonable(self.samples),
            "counters": self.counters,
            "violations": self.violations,
            "inconclusive": self.inconclusive,
            "data": jsonable(self.data),
        }


def jsonable(o: Any, depth: int = 0) -> Any:
    if depth > 8:
        return str(o)
    if isinstance(o, dict):
        return {str(k): jsonable(v, depth + 1) for k, v in o.items()}
    if isinstance(o, (list, tuple, set)):
        return [jsonable(v, depth + 1) for v in o]
    if isinstance(o, np.ndarray):
        if o.size > 64:
            return {"shape": list(o.shape), "head": jsonable(o.ravel()[:16].tolist())}
        return jsonable(o.tolist(), depth + 1)
    if isinstance(o, (np.bool_,)):
        return bool(o)
    if isinstance(o, np.integer):
        return int(o)
    if isinstance(o, np.floating):
        o = float(o)
    if isinstance(o, float):
        if math.isnan(o) or math.isinf(o):
            return repr(o)
        return o
    if isinstance(o, (int, str, bool)) or o is None:
        return o
    return repr(o)[:300]


def derive_seed(*parts: Any) -> int:
    h = hashlib.sha256("/".join(str(p) for p in parts).encode()).digest()
    return int.from_bytes(h[:8], "little") >> 1 or 1


def rng_for(*parts: Any) -> np.random.Generator:
    return np.random.Generator(np.random.PCG64(derive_seed(*parts)))


# --------------------------------------------------------------------------- RNG shadow
def shadow(rng: np.random.Generator) -> np.random.Generator:
    """A private generator in exactly the state of ``rng`` (does not consume from it)."""
    bg = np.random.PCG64()
    bg.state = rng.bit_generator.state
    return np.random.Generator(bg)


def same_state(a: np.random.Generator, b: np.random.Generator) -> bool:
    sa, sb = a.bit_generator.state, b.bit_generator.state
    return sa["state"] == sb["state"] and sa.get("has_uint32") == sb.get("has_uint32") and sa.get("uinteger") == sb.get("uinteger")


# --------------------------------------------------------------------------- snapshots
def cons_repr(atoms: Atoms) -> list:
    out = []
    for c in atoms.constraints:
        try:
            d = c.todict()
        except Exception:  # noqa: BLE001
            d = {"repr": repr(c)}
        out.append((c.__class__.__name__, json.dumps(jsonable(d), sort_keys=True)))
    return out


def snap_atoms(atoms: Atoms) -> dict:
    return {
        "arrays": {k: v.copy() for k, v in atoms.arrays.items()},
        "cell": np.array(atoms.cell.array, copy=True),
        "pbc": np.array(atoms.pbc, copy=True),
        "cons": cons_repr(atoms),
        "n": len(atoms),
    }


def diff_snap(a: dict, b: dict) -> list[str]:
    """Bitwise differences between two atom snapshots (empty list = identical)."""
    out = []
    if a["n"] != b["n"]:
        out.append(f"natoms {a['n']}->{b['n']}")
    ka, kb = set(a["arrays"]), set(b["arrays"])
    for k in sorted(ka - kb):
        out.append(f"array '{k}' vanished")
    for k in sorted(kb - ka):
        out.append(f"array '{k}' appeared")
    for k in sorted(ka & kb):
        x, y = a["arrays"][k], b["arrays"][k]
        if x.dtype != y.dtype:
            out.append(f"array '{k}' dtype {x.dtype}->{y.dtype}")
        elif x.shape != y.shape:
            out.append(f"array '{k}' shape {x.shape}->{y.shape}")
        elif not np.array_equal(x, y, equal_nan=(x.dtype.kind == "f")):
            rows = np.unique(np.argwhere(x != y)[:, 0])[:6].tolist()
            out.append(f"array '{k}' differs at rows {rows}")
    if not np.array_equal(a["cell"], b["cell"]):
        out.append("cell differs")
    if not np.array_equal(a["pbc"], b["pbc"]):
        out.append("pbc differs")
    if a["cons"] != b["cons"]:
        out.append(f"constraints {a['cons']} -> {b['cons']}")
    return out


def digest_atoms(atoms: Atoms, extra: bytes = b"") -> str:
    h = hashlib.sha256()
    for k in sorted(atoms.arrays):
        v = np.ascontiguousarray(atoms.arrays[k])
        h.update(k.encode())
        h.update(str(v.dtype).encode())
        h.update(v.tobytes())
    h.update(np.ascontiguousarray(atoms.cell.array).tobytes())
    h.update(np.ascontiguousarray(atoms.pbc).tobytes())
    h.update(extra)
    return h.hexdigest()[:24]


def config_key(atoms: Atoms) -> str:
    """Digest of what defines the energy: numbers, positions, cell, pbc."""
    h = hashlib.sha256()
    h.update(np.ascontiguousarray(atoms.numbers).tobytes())
    h.update(np.ascontiguousarray(atoms.positions).tobytes())
    h.update(np.ascontiguousarray(atoms.cell.array).tobytes())
    h.update(np.ascontiguousarray(atoms.pbc).tobytes())
    return h.hexdigest()[:20]


# --------------------------------------------------------------------------- trial tracer
class Trial:
    __slots__ = ("step", "k", "name", "verdict", "before", "after")

    def __init__(self, step, k, name, verdict, before, after):
        self.step, self.k, self.name, self.verdict = step, k, name, verdict
        self.before, self.after = before, after


def trace(mc, nsteps: int, snap=None, on_trial=None, at_yield=None, resnap=False):
    """Drive ``mc.irun(nsteps)`` trial by trial.

    ``MonteCarlo.step`` yields the move name *before* performing it, so the code that
    runs between two consecutive yields is exactly one trial.  ``snap(mc)`` is called at
    every yield and when the step generator ends; ``on_trial(Trial)`` is called as soon as
    the trial is over (at the next yield / at the end of the step generator, i.e. while
    the simulation is exactly in the post-trial state) with the snapshots surrounding the
    trial and its verdict from ``mc.move_history``.  ``at_yield(mc)`` runs at every yield
    after that (hostile perturbations).  With ``resnap`` the 'before' snapshot of the next
    trial is taken again after ``on_trial`` (for monitors that annotate the atoms).
    """
    snap = snap or (lambda m: None)
    ntr = 0
    for step in mc.irun(nsteps):
        stepno = mc.step_count
        gen = iter(step)
        k = -1
        prev_name = None
        prev_snap = None
        while True:
            try:
                nm = next(gen)
                done = False
            except StopIteration:
                done = True
            s = snap(mc)
            if prev_name is not None:
                hist = mc.move_history
                verdict = hist[k][1] if k < len(hist) else "missing"
                if verdict is not None and not isinstance(verdict, str):
                    # criteria may hand back any truthy / falsy value (1, numpy booleans, ...): normalise for the monitors.
                    # None stays None: "did not reach its criteria" and "criteria answered None" both must leave the
                    # system as it was, which is all the monitors derive from it.
                    verdict = bool(verdict)
                if on_trial is not None:
                    on_trial(Trial(stepno, k, prev_name, verdict, prev_snap, s))
                    if resnap:
                        s = snap(mc)
                ntr += 1
            if done:
                break
            prev_name, prev_snap = str(nm), s
            k += 1
            if at_yield is not None:
                try:
                    at_yield(mc, prev_name)
                except TypeError:
                    at_yield(mc)
    return ntr


def vstr(v) -> str:
    if v is None:
        return "failed"
    return "accepted" if v else "rejected"


# --------------------------------------------------------------------------- calculators
class QVCalc(Calculator):
    """Analytic calculator, proper ASE Calculator subclass (ASE's cache is in play).

    style 'plain'   : nothing beyond ASE's own result cache.
    style 'keyed'   : tags every result dict with the digest of the configuration it was
                      computed for and checks, whenever a result is handed out, that the
                      queried atoms have that digest (misattributions are recorded).
    style 'ondemand': like 'plain', but forces are computed (and present in the results) only when asked for.
    style 'peratom' : keeps a per-atom table rebuilt only when 'numbers' is among the
                      system changes (like ASE's EMT / LennardJones neighbour tables) and
                      raises when the table length disagrees with the atoms it is given.
    """

    implemented_properties = ("energy", "forces")

    def __init__(self, style: str = "plain", **kwargs):
        super().__init__(**kwargs)
        self.style = style
        self.ncalc = 0
        self.misattributed: list = []
        self.handed_out = 0
        self._table = None

    def energy_forces(self, atoms: Atoms):  # pragma: no cover - abstract
        raise NotImplementedError

    def extra_results(self, atoms: Atoms) -> dict:
        return {}

    def calculate(self, atoms=None, properties=("energy",), system_changes=all_changes):
        super().calculate(atoms, properties, system_changes)
        self.ncalc += 1
        if self.style == "peratom":
            if self._table is None or "numbers" in system_changes:
                self._table = np.array(self.atoms.numbers, copy=True)
            if len(self._table) != len(self.atoms):
                raise ValueError(
                    f"per-atom table sized for {len(self._table)} atoms, got {len(self.atoms)}"
                )
        e, f = self.energy_forces(self.atoms)
        if self.style == "ondemand" and "forces" not in properties:
            # like an electronic-structure code: forces only when somebody asks for them
            self.results = {"energy": float(e)}
        else:
            self.results = {"energy": float(e), "forces": np.asarray(f, dtype=float)}
        self.results.update(self.extra_results(self.atoms))
        if self.style == "keyed":
            self.results["qv_key"] = config_key(self.atoms)
            self.results["qv_state"] = (np.array(self.atoms.numbers), np.array(self.atoms.positions), np.array(self.atoms.cell.array), np.array(self.atoms.pbc))

    @staticmethod
    def same_configuration(state, atoms) -> bool:
        """Same configuration up to 1e-12 A: ASE itself treats positions closer than 1e-15 as unchanged (a rigid
        shift undone by FixCom differs from the start by rounding only), so bytes are too strict a notion here."""
        if state is None:
            return False
        num, pos, cell, pbc = state
        return (
            len(num) == len(atoms)
            and np.array_equal(num, atoms.numbers)
            and np.array_equal(pbc, atoms.pbc)
            and bool(np.abs(pos - atoms.positions).max(initial=0.0) <= 1e-12)
            and bool(np.abs(cell - atoms.cell.array).max(initial=0.0) <= 1e-12)
        )

    def get_property(self, name, atoms=None, allow_calculation=True):
        out = super().get_property(name, atoms, allow_calculation)
        if self.style == "keyed" and atoms is not None and out is not None:
            self.handed_out += 1
            tag = self.results.get("qv_key")
            want = config_key(atoms)
            if tag != want and not self.same_configuration(self.results.get("qv_state"), atoms):
                self.misattributed.append({"prop": name, "tag": tag, "queried": want})
        return out


class Harmonic(QVCalc):
    def __init__(self, sites, k: float, quartic: float = 0.0, **kw):
        super().__init__(**kw)
        self.sites = np.asarray(sites, dtype=float)
        self.k = k
        self.q = quartic

    def energy_forces(self, atoms):
        d = atoms.positions - self.sites[: len(atoms)]
        r2 = (d * d).sum(axis=1)
        e = 0.5 * self.k * r2.sum() + 0.25 * self.q * (r2 * r2).sum()
        f = -self.k * d - self.q * r2[:, None] * d
        return e, f


class IdealGas(QVCalc):
    def energy_forces(self, atoms):
        return 0.0, np.zeros((len(atoms), 3))


class Dipole(QVCalc):
    """E = -f * cos(theta) for the bond 0->1 against z (rigid pair; translation invariant)."""

    def __init__(self, field: float, **kw):
        super().__init__(**kw)
        self.field = field

    def energy_forces(self, atoms):
        b = atoms.positions[1] - atoms.positions[0]
        return -self.field * b[2] / np.linalg.norm(b), np.zeros((len(atoms), 3))


class SoftPair(QVCalc):
    """Bounded smooth pair repulsion + per-species sinusoidal field; works for any N>=0.

    E = sum_{i<j} A exp(-r_ij^2 / 2 s^2) (minimum image if periodic) + sum_i c_Z(i) * g(frac_i)
    """

    def __init__(self, A: float = 0.3, s: float = 1.2, field: float = 0.05, **kw):
        super().__init__(**kw)
        self.A, self.s, self.field = A, s, field

    def energy_forces(self, atoms):
        n = len(atoms)
        f = np.zeros((n, 3))
        if n == 0:
            return 0.0, f
        pos = atoms.positions
        e = 0.0
        if n > 1:
            d = pos[:, None, :] - pos[None, :, :]
            if atoms.pbc.any() and atoms.cell.volume > 0:
                frac = d @ np.linalg.inv(atoms.cell.array)
                frac -= np.round(frac) * atoms.pbc
                d = frac @ atoms.cell.array
            r2 = (d * d).sum(-1)
            w = self.A * np.exp(-r2 / (2 * self.s**2))
            np.fill_diagonal(w, 0.0)
            e += 0.5 * w.sum()
            f += (w[:, :, None] * d).sum(1) / self.s**2
        c = self.field * (1 + (atoms.numbers % 5))
        e += float((c * np.cos(pos[:, 0] * 0.7 + 0.3 * pos[:, 1])).sum())
        g = -c * np.sin(pos[:, 0] * 0.7 + 0.3 * pos[:, 1])
        f[:, 0] -= g * 0.7
        f[:, 1] -= g * 0.3
        return e, f


class Prescribed(QVCalc):
    """Hands out scripted energies / forces / extra result keys (set .energy, .forces, .extra)."""

    def __init__(self, energy=0.0, forces=None, extra=None, **kw):
        super().__init__(**kw)
        self.energy = energy
        self.forces = forces
        self.extra = extra or {}

    def energy_forces(self, atoms):
        e = self.energy(atoms) if callable(self.energy) else self.energy
        f = self.forces(atoms) if callable(self.forces) else self.forces
        if f is None:
            f = np.zeros((len(atoms), 3))
        return e, np.array(f, dtype=float)

    def extra_results(self, atoms):
        ex = self.extra(atoms) if callable(self.extra) else self.extra
        return dict(ex)


def fresh_energy(calc_factory, atoms: Atoms) -> float:
    a = atoms.copy()
    a.calc = calc_factory()
    return float(a.get_potential_energy())


# --------------------------------------------------------------------------- statistics
def batch_means(x: np.ndarray, nb: int = 64) -> tuple[float, float]:
    """Mean and batch-means standard error of a (possibly autocorrelated) series."""
    x = np.asarray(x, dtype=float)
    n = len(x) // nb
    if n < 1:
        return float(x.mean()), float("inf")
    b = x[: n * nb].reshape(nb, n).mean(axis=1)
    return float(x.mean()), float(b.std(ddof=1) / math.sqrt(nb))


def chi2_p(obs, exp) -> tuple[float, float]:
    from scipy.stats import chi2

    obs = np.asarray(obs, dtype=float)
    exp = np.asarray(exp, dtype=float)
    keep = exp > 0
    stat = float((((obs - exp) ** 2)[keep] / exp[keep]).sum())
    dof = int(keep.sum()) - 1
    if (obs[~keep] > 0).any():
        return float("inf"), 0.0
    return stat, float(chi2.sf(stat, max(dof, 1)))


P_FLAG = 1e-6  # per-statistic false-alarm level for i.i.d. tests
Z_FLAG = 5.0


def selftest_calc(calc_factory, atoms: Atoms, h: float = 1e-5, tol: float = 1e-6) -> float:
    """Finite-difference check that a harness calculator's forces are minus the energy gradient."""
    a = atoms.copy()
    a.calc = calc_factory()
    f = a.get_forces()
    worst = 0.0
    for i in range(len(a)):
        for c in range(3):
            p = a.positions.copy()
            p[i, c] += h
            b = atoms.copy(); b.positions = p; b.calc = calc_factory()
            ep = b.get_potential_energy()
            p[i, c] -= 2 * h
            b = atoms.copy(); b.positions = p; b.calc = calc_factory()
            em = b.get_potential_energy()
            worst = max(worst, abs(-(ep - em) / (2 * h) - f[i, c]))
    if worst > tol * max(1.0, np.abs(f).max()):
        raise AssertionError(f"harness calculator self-test failed: force error {worst}")
    return worst


# --------------------------------------------------------------------------- exchange-call counter
EXCH = {"ok": 0, "second_started": False, "installed": False, "seq": [], "second_crashed": False}


def exch_reset():
    EXCH["ok"] = 0
    EXCH["second_started"] = False
    EXCH["seq"] = []
    EXCH["second_crashed"] = False


def exch_finding_applies() -> bool:
    """Did the trial that just ended exercise the listed finding 'two exchange moves act in one plain composite trial'?
    Its mechanism is the second move working on labels / pending indices that are only brought up to date after the
    trial.  One order is consistent on the pinned code and is NOT the finding: a deletion followed by an insertion
    (the deleted rows are recorded in pre-trial coordinates, the inserted atoms are appended after the removal).
    Everything else with two or more successful exchange calls is, and so is an exception raised inside an exchange
    move that started after another one had already acted."""
    seq = EXCH["seq"]
    return (len(seq) >= 2 and seq != ["del", "ins"]) or bool(EXCH["second_crashed"])


def install_exchange_counter():
    """Record the successful ExchangeMove calls of a trial (class-attribute wrap) with their direction; monitors read
    and reset the record per trial (exch_reset) to recognise the listed finding (exch_finding_applies)."""
    if EXCH["installed"]:
        return
    from quansino.moves.exchange import ExchangeMove

    orig = ExchangeMove.__dict__["__call__"]

    def call(self, context):
        second = EXCH["ok"] >= 1
        if second:
            EXCH["second_started"] = True  # a second exchange move starts in a trial where one already acted
        n0 = len(context.atoms)
        try:
            out = orig(self, context)
        except Exception:
            if second:
                EXCH["second_crashed"] = True
            raise
        if out:
            EXCH["ok"] += 1
            EXCH["seq"].append("ins" if len(context.atoms) > n0 else "del")
        return out

    ExchangeMove.__call__ = call
    EXCH["installed"] = True
