"""Contract for the acceptance criteria (C02): an oracle evaluated around every real
`evaluate` call, reusable from any workload (it rides along in other checks' simulations).

The oracle recomputes log A from the property's formulas, using parameters from the
workload's own record of what it last assigned through the simulation object
(`intend(...)`), reference energy / cell from the context's documented `last_*` fields,
and current energy / cell / atom count from the atoms; the uniform number is predicted by
a shadow copy of the simulation's generator.
"""
from __future__ import annotations

import math

import numpy as np
from ase.units import _amu, _e, _hplanck, kB

from qv.lib import Rec, same_state, shadow

INTENT: dict[int, dict] = {}
KEEP: list = []
BINS = 20
FREQ: dict[str, list] = {}


def intend(context, **settings) -> None:
    """Record what the workload assigned through the simulation object's public properties."""
    if id(context) not in INTENT:
        KEEP.append(context)
    INTENT.setdefault(id(context), {}).update(settings)


def thermal_wavelength(mass_amu: float, T: float) -> float:
    """de Broglie thermal wavelength in Angstrom, from CODATA constants as shipped by ase.units."""
    return _hplanck / math.sqrt(2 * math.pi * mass_amu * _amu * kB * T * _e) * 1e10


def log_acceptance(kind: str, ctx, it: dict, crit=None) -> tuple[float | None, dict]:
    """-> (log A or None when not judged, details)."""
    atoms = ctx.atoms
    T = it["T"]
    kT = kB * T
    e_cur = float(atoms.get_potential_energy())
    # reference energy and cell: what the workload recorded when the trial started (an independent evaluation of the
    # configuration the trial started from, and its cell), where the workload drives the trials itself; otherwise the
    # context's documented last_* fields (that those describe the last accepted configuration is C04's subject)
    e_ref = it.get("e_ref")
    dE = e_cur - float(ctx.last_potential_energy if e_ref is None else e_ref)
    cell_ref = it.get("cell_ref")
    det = {"T": T, "dE": dE, "kind": kind, "references": "recorded at the start of the trial" if (e_ref is not None or cell_ref is not None) else "context"}
    if kind == "canonical":
        return -dE / kT, det
    if kind == "hamiltonian":
        # reference kinetic energy: that of the freshly drawn momenta as recorded by the workload's refresh wrapper
        # (independent of what the context remembers); passive workloads without the wrapper fall back on the context
        ke_ref = it.get("ke_ref")
        if ke_ref is None:
            ke_ref = float(ctx.last_kinetic_energy)
        det["ke_ref_source"] = "recorded at the start of the trajectory" if it.get("ke_ref") is not None else "context"
        dH = (e_cur + float(atoms.get_kinetic_energy())) - float(ctx.last_potential_energy if e_ref is None else e_ref) - float(ke_ref)
        det["dH"] = dH
        return -dH / kT, det
    if kind in ("isobaric", "isotension"):
        P = it.get("P", 0.0)
        V1 = float(abs(np.linalg.det(atoms.cell.array)))
        h0_ref = np.asarray(ctx.last_cell if cell_ref is None else cell_ref, dtype=float)
        V0 = float(abs(np.linalg.det(h0_ref)))
        N = len(atoms)
        logA = -(dE + P * (V1 - V0)) / kT + (N + 1) * math.log(V1 / V0)
        det.update({"P": P, "V0": V0, "V1": V1, "N": N})
        if kind == "isotension":
            S = np.asarray(it.get("S", np.zeros((3, 3))), dtype=float)
            hydro = np.array_equal(S, P * np.eye(3))
            det["hydrostatic"] = hydro
            if not hydro:
                # The statement does not define the strain measure.  The oracle uses the one the package implements at
                # the pinned commit, recomputed independently from the two cells: eps = (D^T - 1)/2 with D = h h0^-1
                # (h, h0: current / remembered cell, rows = cell vectors).  What the criteria reports is compared with it.
                h = np.asarray(atoms.cell.array, dtype=float)
                h0 = h0_ref
                eps = 0.5 * ((h @ np.linalg.inv(h0)).T - np.eye(3))
                det["strain"] = eps
                rep = getattr(crit, "strain_tensor", None)
                if rep is not None:
                    det["strain_reported"] = np.asarray(rep, dtype=float)
                logA += -V0 * float(np.trace((S - P * np.eye(3)) @ eps)) / kT
        return logA, det
    if kind == "grand":
        n_species = max(1, len(it["species_symbols"]))
        dn_atoms = len(atoms) - len(ctx.last_positions)
        if it.get("single_particle_exchanges"):
            # the workload's table holds single exchange moves only: one particle per trial, whatever its
            # size (pre-existing single atoms can be deleted next to a molecular exchange species)
            dN = int(np.sign(dn_atoms))
        elif dn_atoms % n_species:
            return None, det
        else:
            dN = dn_atoms // n_species
        N, V, mu = it["N"], it["V"], it["mu"]
        if N < 0:
            return None, det
        lam3 = thermal_wavelength(it["species_mass"], T) ** 3
        det.update({"dN": dN, "N": N, "V": V, "mu": mu, "Lambda3": lam3})
        if dN == 1:
            return math.log(V / (lam3 * (N + 1))) + (mu - dE) / kT, det
        if dN == -1:
            if N <= 0:
                return -math.inf, det
            return math.log(lam3 * N / V) + (-mu - dE) / kT, det
        if dN == 0:
            return None, det
        return None, det
    return None, det


def degenerate_cell(ctx) -> bool:
    """True when the current or the remembered cell is numerically singular / collapsed / exploded."""
    try:
        for c in (np.asarray(ctx.atoms.cell.array, dtype=float), np.asarray(ctx.last_cell, dtype=float)):
            v = abs(np.linalg.det(c))
            if not np.isfinite(v) or v < 1e-6 or v > 1e12 or np.linalg.cond(c) > 1e8:
                return True
    except Exception:  # noqa: BLE001
        return True
    return False


def make_wrapper(rec: Rec, kind: str, orig, is_static: bool):
    def evaluate(*args, **kw):
        ctx = args[0] if is_static else args[1]
        crit = None if is_static else args[0]
        it = INTENT.get(id(ctx))
        rec.count(f"evaluate:{kind}")
        if it is None:
            rec.count("evaluate_unregistered_context")
            return orig(*args, **kw)
        sh = shadow(ctx.rng)
        pre = shadow(ctx.rng)
        try:
            out = orig(*args, **kw)
        except Exception as ex:  # noqa: BLE001
            if kind in ("isobaric", "isotension") and degenerate_cell(ctx):
                rec.count("degenerate_cell_not_judged")  # outside the statement's domain (positive, finite volumes)
                raise
            try:
                logA, det = log_acceptance(kind, ctx, it, crit)
            except Exception:  # noqa: BLE001
                logA, det = None, {}
            fav = "favourable" if (logA is not None and logA > 0) else "unfavourable"
            rec.viol(f"C02/{kind}/raised/{type(ex).__name__}/{fav}", f"{kind} criteria raised {type(ex).__name__}: {ex} for finite inputs (log A = {logA})", det)
            # keep the workload alive with the oracle's own decision
            u = ctx.rng.random()
            decision = bool(logA is not None and not math.isnan(logA) and (math.log(u) if u > 0 else -math.inf) < logA)
            if kind == "grand" and decision and det.get("dN") in (1, -1):
                it["N"] = it["N"] + det["dN"]
            return decision
        if kind in ("isobaric", "isotension") and degenerate_cell(ctx):
            rec.count("degenerate_cell_not_judged")
            return out
        try:
            logA, det = log_acceptance(kind, ctx, it, crit)
        except Exception as ex:  # noqa: BLE001
            rec.inconclusive.append(f"oracle error {type(ex).__name__}: {ex}")
            return out
        if logA is None:
            rec.count("evaluate_not_judged")
            return out
        if math.isnan(logA) or not all(math.isfinite(float(det.get(k, 0.0))) for k in ("dE", "dH", "V0", "V1")):
            rec.count("nonfinite_inputs_not_judged")  # outside the statement's domain (finite energies, volumes)
            return out
        rec.evaluations += 1
        rec.count("judged:" + kind)
        rec.count("references_" + ("recorded_at_trial_start" if det.get("references", "").startswith("recorded") else "from_context"))
        if kind == "hamiltonian":
            rec.count("hamiltonian_reference_from_" + ("trajectory_start" if det.get("ke_ref_source", "").startswith("recorded") else "context"))
            if it.pop("trajectories", 0) >= 2:
                rec.count("judged:hamiltonian:after-a-vetoed-trajectory")
        if kind == "grand":
            rec.count("judged:grand:" + ("insert" if det.get("dN") == 1 else "delete"))
            if det.get("dN") == -1 and det.get("N", 1) <= 0:
                rec.count("judged:grand:delete-at-zero")
        if abs(logA) > 709.78:
            rec.count("judged_beyond_exp_range")
        u = sh.random()
        one_draw = same_state(ctx.rng, sh)
        zero_draw = same_state(ctx.rng, pre)
        A_bin = min(BINS - 1, int(min(1.0, math.exp(min(0.0, logA))) * BINS))
        f = FREQ.setdefault(kind, [[0, 0, 0.0, 0.0] for _ in range(BINS)])
        p = math.exp(min(0.0, logA))
        f[A_bin][0] += 1
        f[A_bin][1] += int(bool(out))
        f[A_bin][2] += p
        f[A_bin][3] += p * (1 - p)
        det["logA"] = logA
        det["returned"] = bool(out)
        if one_draw:
            rec.count("u_identified")
            logu = math.log(u) if u > 0 else -math.inf
            det["u"] = u
            if abs(logu - logA) < 1e-9 * max(1.0, abs(logA)):
                rec.count("undecidable_margin")
            else:
                want = logu < min(0.0, logA)
                if bool(out) != want:
                    sub = ""
                    if kind == "grand":
                        sub = "/insert" if det.get("dN") == 1 else "/delete"
                    if kind == "isotension":
                        sub = "/hydrostatic" if det.get("hydrostatic") else "/deviatoric"
                    rec.viol(f"C02/{kind}{sub}/decision", f"{kind} criteria returned {bool(out)} but u={u:.6g} {'<' if want else '>='} min(1,A), log A={logA:.6g}", det)
        elif zero_draw and logA >= 0:
            rec.count("no_draw_for_certain_acceptance")
            if not out:
                rec.viol(f"C02/{kind}/decision", f"{kind} criteria rejected a trial with A>=1 (log A={logA:.6g})", det)
        else:
            rec.count("u_unidentified")
            rec.viol(f"C02/{kind}/generator-consumption", f"{kind} criteria did not consume exactly one uniform draw from the simulation's generator", det)
        if kind == "grand" and out and det.get("dN") in (1, -1):
            it["N"] = it["N"] + det["dN"]  # accepted: the simulation's particle count follows
        rec.case(kind, det.get("dN", ""), int(np.sign(logA)), int(min(12, math.log10(abs(logA) + 1e-300) // 1 if logA not in (0, -math.inf, math.inf) else 0)), det.get("hydrostatic", ""))
        rec.sample({k: v for k, v in det.items() if k != "strain"}, cap=4)
        return out

    return evaluate


def install(rec: Rec) -> None:
    import quansino.mc.criteria as qc

    table = {"canonical": "CanonicalCriteria", "hamiltonian": "HamiltonianCanonicalCriteria", "isobaric": "IsobaricCriteria", "isotension": "IsotensionCriteria", "grand": "GrandCanonicalCriteria"}
    for kind, cname in table.items():
        cls = getattr(qc, cname, None)
        if cls is None:
            rec.inconclusive.append(f"criteria class {cname} not found")
            continue
        raw = cls.__dict__.get("evaluate")
        if isinstance(raw, staticmethod):
            cls.evaluate = staticmethod(make_wrapper(rec, kind, raw.__func__, True))
        else:
            cls.evaluate = make_wrapper(rec, kind, raw, False)
    # the reference kinetic energy of a Hamiltonian trial is that of the momenta the trajectory starts from: recorded
    # here, on entry to the integrator, for every trajectory (a vetoed trajectory that is tried again starts from
    # freshly drawn momenta and is recorded again) -- never read back from what the context remembers
    import quansino.integrators.displacement as qi

    for cname in ("Verlet",):
        icls = getattr(qi, cname, None)
        raw = icls.__dict__.get("integrate") if icls is not None else None
        if raw is None:
            rec.inconclusive.append(f"integrator {cname}.integrate not found")
            continue

        def integrate(self, context, *a, _raw=raw, **kw):
            it = INTENT.get(id(context))
            if it is not None:
                it["ke_ref"] = float(context.atoms.get_kinetic_energy())
                it["trajectories"] = it.get("trajectories", 0) + 1
                rec.count("trajectory_start_kinetic_energy_recorded")
            return _raw(self, context, *a, **kw)

        icls.integrate = integrate


def freq_data() -> dict:
    return FREQ
