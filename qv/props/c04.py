"""C04 - energies used for acceptance belong to the configuration they describe.

Monitors (trial tracer): after every trial the calculator's cached energy (read without
triggering a calculation), the context's reference energy and remembered positions / cell
are compared with an independent from-scratch evaluation of the current configuration
(fresh calculator instance on a copy of the atoms); a result-tagging calculator records
any result handed out for a configuration it was not computed for; evaluation counters
are compared with 1 + number of trials that reached their criteria while the package's
own Logger logs the energy every step (pass A, non-intrusive).  In pass B the energy is
queried through the public API after every trial (intrusive) and compared with the oracle.
Calculators: harness calculators in three caching styles (plain ASE cache, result-tagging,
per-atom internal state) plus ASE's EMT and LennardJones.
Every other simulation carries constraints (FixAtoms on a framework or the first atom,
FixCom): the calculator's own copy of the atoms carries copies of them too.
Further dimensions: an on-demand calculator (forces only when asked for) with force queries between trials, and
constraints that contribute to the energy (Hookean, ExternalForce).
Every sixth grand-canonical simulation exchanges distinguishable single atoms through e+e and e*2 composites that are
mostly rejected (several particles put back in one trial, rows recorded in descending order as often as ascending).
"""
from __future__ import annotations

import io
import os
import traceback

import numpy as np

from qv import workloads
from qv.lib import Rec, install_exchange_counter, rng_for, trace, vstr, exch_finding_applies, exch_reset
from qv.props.c05 import classify_exception, table_shape

LEVEL = "exploration"
RULE = (
    "one evaluation = one trial of a seeded simulation (ensemble x move table x calculator kind/style x criteria and veto schedule x pass A/B); distinct by "
    "(ensemble, table shape, calculator, verdict, pass); non-trivial = trials that reached their criteria (an energy was computed and then kept or discarded)"
)
ASSUMPTIONS = [
    "energy tolerance 1e-10 * max(1, |E|) against a fresh calculator instance on atoms.copy()",
    "the count clause is decided on calculators that cache through ASE's Calculator base class (all harness styles, EMT, LennardJones); Hamiltonian workloads are excluded from the count clause as the statement says",
    "pass A never queries the energy itself; it reads calc.results / calc.check_state and lets the package's Logger do the querying",
]
REQUIRED = {"simulations_with_composite_exchange_of_distinguishable_particles": 8, "simulations_with_energy_contributing_constraint": 10, "force_queries": 300, "trials": 4000, "count_checks": 300, "cached_energy_checks": 2000, "reference_energy_checks": 3000, "intrusive_queries": 1000, "keyed_results_handed_out": 500, "peratom_trials": 300, "ase_calculator_trials": 300, "rejected": 800, "failed": 200}
SHARD_TIMEOUT = {"quick": 900, "thorough": 3000}
FAMILIES = ["canonical", "isobaric", "isotension", "grand", "grand", "hamiltonian", "canonical", "isobaric"]
CALCS = [("soft", "plain"), ("soft", "keyed"), ("soft", "peratom"), ("emt", "ase"), ("lj", "ase"), ("soft", "keyed"), ("soft", "peratom"), ("emt", "ase")]


def plan(tier, seed):
    combos = []
    for fam in ("grand",):
        for calc in (("soft", "plain"), ("soft", "keyed"), ("soft", "peratom"), ("emt", "ase"), ("lj", "ase")):
            for ps in "AB":
                combos.append((fam, calc, ps))
        combos.append((fam, ("soft", "ondemand"), "B"))
    others = [("soft", "plain"), ("soft", "keyed"), ("soft", "peratom"), ("emt", "ase"), ("lj", "ase"), ("soft", "ondemand")]
    k = 0
    for fam in ("canonical", "isobaric", "isotension"):
        for calc in others:
            combos.append((fam, calc, "AB"[k % 2]))
            k += 1
    for calc in (("soft", "plain"), ("soft", "keyed"), ("soft", "peratom")):
        combos.append(("hamiltonian", calc, "AB"[k % 2]))
        k += 1
    for fam in ("canonical", "isobaric", "hamiltonian"):
        combos.append((fam, ("soft", "ondemand"), "B"))
    if tier != "quick":
        combos = combos + [(f, c, "AB"[(i + 1) % 2]) for i, (f, c, _) in enumerate(combos)]
    return [{"name": f"{f}-{c[0]}-{c[1]}-{ps}{j}", "family": f, "calc": list(c), "pass": ps, "j": j, "seed": seed, "sims": 14 if tier == "quick" else 40, "steps": 25 if tier == "quick" else 70} for j, (f, c, ps) in enumerate(combos)]


class Counting:
    """Mixin counting calculate() calls of ASE's own calculators."""

    def calculate(self, *a, **k):
        self.ncalc = getattr(self, "ncalc", 0) + 1
        return super().calculate(*a, **k)


def make_factory(kind, style):
    from qv import sims

    if kind == "emt":
        from ase.calculators.emt import EMT

        cls = type("CountingEMT", (Counting, EMT), {})
        return lambda: cls()
    if kind == "lj":
        from ase.calculators.lj import LennardJones

        cls = type("CountingLJ", (Counting, LennardJones), {})
        return lambda: cls(sigma=2.0, epsilon=0.02, rc=4.5, smooth=True)
    return lambda: sims.build_calc({"kind": "soft", "style": style}, None)


def run_one(rec: Rec, spec, steps, family, kind, style, mode):
    from qv import sims

    shape = table_shape(spec)
    wit0 = {"ensemble": family, "table": shape, "calculator": f"{kind}/{style}", "pass": mode, "seed": spec["seed"], "atoms": spec["atoms"].get("kind")}
    factory = make_factory(kind, style)
    log = io.StringIO()
    try:
        mc, info = sims.build(spec, logfile=log, logging_interval=1)
        mc.atoms.calc = factory()
        calc = mc.atoms.calc
        if family != "grand" and len(mc.atoms) >= 2 and spec["seed"] % 4 == 1:
            # a constraint that contributes to the energy (a Hookean tether, an external force): the energy of the
            # configuration is what Atoms.get_potential_energy() says, constraint terms included
            from ase.constraints import ExternalForce, Hookean

            extra = Hookean(0, 1, k=2.0, rt=0.5) if spec["seed"] % 8 == 1 else ExternalForce(0, 1, 0.3)
            mc.atoms.set_constraint([*mc.atoms.constraints, extra])
            wit0["energy_constraint"] = type(extra).__name__
            rec.count("simulations_with_energy_contributing_constraint")
    except Exception as ex:  # noqa: BLE001
        rec.viol(f"C04/build-raised/{classify_exception(ex)}", f"building the simulation raised {ex}"[:300], wit0)
        return
    st = {"reached": 0, "base": None, "after_reverted_exchange": False, "two_exchanges": False}
    exch_reset()
    countable = family != "hamiltonian"

    def fresh(atoms):
        a = atoms.copy()
        a.calc = factory()
        return float(a.get_potential_energy())

    def fresh_raw(atoms):
        a = atoms.copy()
        a.set_constraint()
        a.calc = factory()
        return float(a.get_potential_energy())

    def fresh_forces(atoms):
        a = atoms.copy()
        a.set_constraint()
        a.calc = factory()
        return np.asarray(a.get_forces(apply_constraint=False), dtype=float)

    def viol(key, what, witness, crashed=False):
        # Known finding: a plain composite with two exchange moves acts on stale labels / indices.  Only what that
        # mechanism directly produces is attributed to it: a crash of the simulation after such a trial, or a violation
        # observed in the very trial in which two exchanges acted.  Everything else keeps its own key.
        if (crashed and st["two_exchanges"]) or st.get("two_exchanges_this_trial"):
            key = "C04/two-exchange-moves-succeed-in-one-plain-composite-trial"
            what = "a plain composite (built with +) performed two exchange moves in one trial: " + what
            # the listed defect has corrupted this simulation's state (stale reference energy / geometry that the next
            # rejected trial inherits): the simulation is abandoned after this trial instead of re-reporting the same
            # corruption under other keys; every other simulation is still judged in full
            st["tainted"] = True
        rec.viol(key, what, witness)

    def snap(m):
        return {"n": len(m.atoms), "ncalc": getattr(calc, "ncalc", 0)}

    def on_trial(t):
        rec.count("trials")
        rec.evaluations += 1
        st["base"] = t.after.get("ncalc")
        if t.k == 0 and mode == "A" and countable and st.get("end_of_step") is not None and t.before.get("ncalc") != st["end_of_step"]:
            viol("C04/evaluation-count/starting-a-run-costs-an-evaluation", f"{t.before['ncalc'] - st['end_of_step']} energy evaluation(s) were spent between the end of one run call and the first trial of the next", wit0)
        st["two_exchanges_this_trial"] = exch_finding_applies()
        if exch_finding_applies():
            st["two_exchanges"] = True
        exch_reset()
        if style == "peratom":
            rec.count("peratom_trials")
        if style == "ase":
            rec.count("ase_calculator_trials")
        v = vstr(t.verdict)
        rec.count(v)
        if t.verdict is not None:
            st["reached"] += 1
            rec.case(family, shape, kind, style, v, mode)
        entry = next((e for e in spec["table"] if e["name"] == t.name), None)
        mshape = table_shape({"table": [entry]}) if entry else "?"
        wit = {**wit0, "step": t.step, "trial": t.k, "move": t.name, "move_shape": mshape, "verdict": v, "natoms": len(mc.atoms)}
        atoms, ctx = mc.atoms, mc.context
        e_true = fresh(atoms)
        tol = 1e-10 * max(1.0, abs(e_true))
        # reference energy and remembered geometry
        rec.count("reference_energy_checks")
        lpe = getattr(ctx, "last_potential_energy", None)
        if lpe is not None and not abs(float(lpe) - e_true) <= tol:
            viol(f"C04/reference-energy-wrong/{v}", f"the reference energy for the next acceptance test is {lpe!r}, a from-scratch evaluation of the current atoms gives {e_true!r}", wit)
        lp = getattr(ctx, "last_positions", None)
        if lp is not None and (np.shape(lp) != atoms.positions.shape or not np.array_equal(lp, atoms.positions)):
            viol(f"C04/remembered-positions-stale/{v}", "the remembered positions differ from the current ones", wit)
        lc = getattr(ctx, "last_cell", None)
        if lc is not None and not np.array_equal(np.asarray(lc), atoms.cell.array):
            viol(f"C04/remembered-cell-stale/{v}", "the remembered cell differs from the current one", wit)
        if mode == "A":
            try:
                changes = calc.check_state(atoms)
            except Exception:  # noqa: BLE001
                changes = ["?"]
            if not changes and "energy" in calc.results:
                rec.count("cached_energy_checks")
                e_raw = fresh_raw(atoms)  # the calculator's own cache holds the calculator's energy, without constraint terms
                if not abs(float(calc.results["energy"]) - e_raw) <= 1e-10 * max(1.0, abs(e_raw)):
                    viol(f"C04/cached-energy-wrong/{v}", f"the calculator holds energy {calc.results['energy']!r} as valid for the current atoms, from scratch it is {e_true!r}", wit)
            elif changes:
                rec.count("cache_invalid_after_" + v)
                st["last_invalid"] = {**wit, "system_changes": list(changes)}
        else:
            rec.count("intrusive_queries")
            try:
                e = float(atoms.get_potential_energy())
            except Exception as ex:  # noqa: BLE001
                how = "after-reverted-exchange" if st["after_reverted_exchange"] else "other"
                viol(f"C04/calculator-unusable/{style if kind == 'soft' else kind}/{how}", f"the calculator raised {type(ex).__name__}: {ex} when asked for the energy of the current atoms"[:300], wit)
                raise
            if not abs(e - e_true) <= tol:
                viol(f"C04/reported-energy-wrong/{v}", f"the simulation reports {e!r} for the current atoms, from scratch it is {e_true!r}", wit)
            if style == "ondemand" and (t.k + t.step) % 2 == 0:
                # other cached results too: forces asked for between trials (a logger field, an observer) must be those
                # of the current configuration, whatever was computed, kept or restored before
                rec.count("force_queries")
                f = np.asarray(atoms.get_forces(apply_constraint=False), dtype=float)
                f_true = fresh_forces(atoms)
                if f.shape != f_true.shape or not np.allclose(f, f_true, rtol=1e-9, atol=1e-12):
                    viol(f"C04/reported-forces-wrong/{v}", f"the forces reported for the current atoms differ from a from-scratch evaluation by up to {float(np.abs(f - f_true).max()) if f.shape == f_true.shape else 'shape'}", wit)
        # (by the move objects behind the entry, not by the entry's shape: an entry may be a second name of another
        #  entry's exchange move)
        is_exchange_entry = "E" in mshape or (t.name in mc.moves and any(hasattr(m_, "to_delete_label") for m_ in sims.walk_moves(mc.moves[t.name].move)))
        if is_exchange_entry and t.verdict is False:
            st["after_reverted_exchange"] = True
        mis = getattr(calc, "misattributed", None)
        if mis:
            viol(f"C04/result-attributed-to-other-configuration/{v}", f"the calculator handed out a result computed for another configuration: {mis[0]}", wit)
            mis.clear()
        # evaluation accounting (pass A only: nothing but the package queries the calculator)
        if mode == "A" and countable and "ncalc" in t.before and hasattr(calc, "ncalc"):
            rec.count("count_checks")
            delta = t.after["ncalc"] - t.before["ncalc"]
            if t.verdict is None and delta != 0:
                viol("C04/evaluation-count/failed-trial-evaluates", f"a trial that never reached its criteria spent {delta} energy evaluations", wit)
            elif t.verdict is not None and delta > 1:
                viol(f"C04/evaluation-count/extra/{v}", f"a {v} trial spent {delta} energy evaluations (one is allowed)", {**wit, "last_cache_invalidation": st.get("last_invalid")})
        rec.sample({**wit, "energy": e_true}, cap=3)
        if st.get("tainted"):
            raise Abandoned

    def check_count(where):
        st["two_exchanges_this_trial"] = False
        """Between the end of the last trial and now only the package's own Logger ran: it must not cost an evaluation."""
        if not countable or mode != "A" or not hasattr(calc, "ncalc"):
            return
        rec.count("count_checks")
        n = calc.ncalc
        if st["base"] is not None and n != st["base"]:
            viol("C04/evaluation-count/logging-costs-an-evaluation", f"{n - st['base']} energy evaluation(s) were spent after the last trial of the step (observers / logging)", wit0)
        st["base"] = None
        st["end_of_step"] = n

    try:
        for _ in range(steps):
            trace(mc, 1, snap=snap, on_trial=on_trial)
            check_count("after a step incl. the logger call")
    except Abandoned:
        rec.count("simulations_abandoned_after_listed_finding")
    except Exception as ex:  # noqa: BLE001
        if exch_finding_applies():
            st["two_exchanges"] = True
        tb = traceback.extract_tb(ex.__traceback__)
        # raised inside a calculator (ASE's, or the harness's own in qv/lib.py) - not inside the package's operations,
        # whose entry point is called `calculate` as well
        in_calc = any(("calculators" in f.filename or (f.name in ("calculate", "energy_forces") and f.filename.endswith(os.path.join("qv", "lib.py")))) for f in tb)
        if in_calc:
            how = "after-reverted-exchange" if st["after_reverted_exchange"] else "other"
            viol(f"C04/calculator-unusable/{style if kind == 'soft' else kind}/{how}", f"the calculator raised {type(ex).__name__}: {ex} on its next use"[:300], {**wit0, "traceback": traceback.format_exc()[-500:]})
        else:
            viol(f"C04/run-raised/{classify_exception(ex)}", f"simulation raised {type(ex).__name__}: {ex}"[:300], {**wit0, "traceback": traceback.format_exc()[-500:]}, crashed=True)
    rec.count("keyed_results_handed_out", getattr(calc, "handed_out", 0))


class Abandoned(Exception):
    """Raised by the monitor to stop a simulation whose state a listed finding has corrupted."""


def run(spec):
    from qv import env

    env.import_quansino()
    install_exchange_counter()
    rec = Rec(spec["name"])
    rng = rng_for("C04", spec["seed"], spec["j"])
    kind, style = spec["calc"]
    for i in range(spec["sims"]):
        # every other simulation carries constraints (FixAtoms on a framework / the first atom, or FixCom): the
        # calculator's own copy of the atoms carries copies of them too
        s = workloads.gen(rng, spec["family"], styles=[style if kind == "soft" else "plain"], p_scripted=0.35, constraints=(i % 2 == 1))
        if kind in ("emt", "lj"):
            a = s["atoms"]
            if a["kind"] in ("gas", "mixed"):
                a["kind"], a["species"] = "gas", "Cu"
            a["edge"] = max(a.get("edge", 8.0), 9.5)
            s["species_symbol"] = "Cu"
        if spec["family"] == "hamiltonian":
            if kind != "soft":
                continue
        if spec["family"] == "grand" and i % 3 == 1:
            # number-conserving swap: a plain composite (built with +) whose first exchange move always deletes and whose
            # second always inserts (this order works on the pinned code); species differ, so a rejected swap restores
            # the composition without changing the atom count
            if s["atoms"]["kind"] in ("gas", "mixed") and kind == "soft":
                s["atoms"]["kind"] = "mixed"
                s["atoms"]["n"] = max(3, s["atoms"].get("n", 3))
            s["T"] = 3000.0
            s["cycles"] = 2
            s["table"] = [
                {"name": "swap", "move": {"t": "+", "parts": [{"t": "D", "op": {"t": "Ball", "step": 0.2}}, {"t": "E", "bias": 0.0}, {"t": "E", "bias": 1.0}]}, "criteria": "grand"},
                {"name": "d", "move": {"t": "D", "op": {"t": "Ball", "step": 0.3}}},
            ]
        if spec["family"] == "grand" and i % 6 == 5 and kind == "soft":
            # several distinguishable single-atom particles deleted in one trial by a composite exchange move (built with
            # + from two exchange moves, and with * from one) and mostly put back: the rows are recorded in the order
            # the members picked them, which is as often descending as ascending
            s["atoms"]["kind"] = "mixed"
            s["atoms"]["n"] = int(max(4, s["atoms"].get("n", 4)))
            s["atoms"].pop("spectators_last", None)
            s["atoms"]["constraints"] = [c for c in s["atoms"].get("constraints", []) if c == "FixCom"]
            s["species"] = 1
            s["cycles"] = 2
            em_ = {"t": "E", "op": None, "bias": 0.3}
            s["table"] = [
                {"name": "xx", "move": {"t": "+", "parts": [em_, dict(em_)]}, "criteria": "random:0.2"},
                {"name": "x2", "move": {"t": "*", "part": dict(em_), "n": 2}, "criteria": "random:0.2"},
                {"name": "d", "move": {"t": "D", "op": {"t": "Ball", "step": 0.3}}},
            ]
            rec.count("simulations_with_composite_exchange_of_distinguishable_particles")
        if spec["family"] == "grand" and i % 3 == 0:
            # exchange and displacement trials, both judged by the shipped criteria, with a chemical potential
            # that makes insertions and deletions about equally likely (so accepted and reverted exchanges alternate)
            import math

            from qv.metropolis import thermal_wavelength
            from qv.sims import build_atoms, molecule_template

            at, lab = build_atoms(s["atoms"])
            tm = molecule_template(s.get("species", 1), s.get("species_symbol"))
            n0 = max(1, len(set(lab[lab >= 0].tolist())))
            s["T"] = 3000.0
            s["mu"] = 8.617333e-5 * s["T"] * math.log(thermal_wavelength(float(tm.get_masses().sum()), s["T"]) ** 3 * (n0 + 1) / at.cell.volume)
            eop = {"t": "TranslationRotation"} if len(tm) > 1 else None
            s["table"] = [{"name": "x", "move": {"t": "E", "op": eop}}, {"name": "d", "move": {"t": "D", "op": {"t": "Ball", "step": 0.3}}}]
            s["cycles"] = 3
        run_one(rec, s, spec["steps"], spec["family"], kind, style, spec["pass"])
    return rec.out()
